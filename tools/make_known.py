#!/usr/bin/env python3
"""Offline triage helper (never called by a check): turn a violation listing produced with
VERIF_LIST_VIOLATIONS=<file> into known_findings.json entries, after a human has decided that the listed
violations are genuine.  usage: make_known.py <property> <listing.json> <keys,comma,separated> "<what template>"
The signature of each new finding keeps only the given keys (plus 'check'); duplicates are skipped."""
import json, sys
prop, listing, keys, tmpl = sys.argv[1], sys.argv[2], sys.argv[3].split(","), sys.argv[4]
K = json.load(open("/verif/known_findings.json"))
have = {json.dumps(f["signature"], sort_keys=True) for f in K["findings"] if f["property"] == prop}
n = 0
for v in json.load(open(listing)):
    sig = {"check": v["signature"]["check"]}
    for k in keys:
        sig[k] = v["signature"][k]
    key = json.dumps(sig, sort_keys=True)
    if key in have:
        continue
    have.add(key)
    K["findings"].append({"property": prop, "signature": sig, "what": tmpl.format(reason=v["reason"], **v["signature"])})
    n += 1
json.dump(K, open("/verif/known_findings.json", "w"), indent=1)
print("added", n)
