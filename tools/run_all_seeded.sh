#!/bin/bash
# Re-runs every seeded change against the quick check(s) of its property in a scratch worktree of /repo HEAD.
# usage: tools/run_all_seeded.sh <logfile>
log=${1:-/root/mut/final.log}; : > $log
cd /verif
for d in seeded/*/; do
  n=$(basename $d)
  case $n in
    cpp_*) props="C10 C16";;
    revert_C14_b0bf408) props="C14 C05";;
    revert_C14_89e6f2d) props="C14 C08";;
    revert_*) props=$(echo $n | cut -d_ -f2);;
    C02_*) props="C02 C01";;
    C03_3) props="C03 C01";;
    C04_3) props="C04 C13";;
    C13_2) props="C13 C01";;
    C14_1) props="C14 C08";;
    *) props=$(echo $n | cut -d_ -f1);;
  esac
  tools/mutrun.sh $n /verif/$d/patch.diff $props >> $log 2>&1
done
