#!/usr/bin/env python3
"""Independently confirm seeded changes delivered by sub-agents and file them under /verif/seeded/<id>/.
usage: verify_seeded.py <agent _seeded dir> [<name> ...]
For each change: scratch worktree of /repo HEAD, apply patch, run the pinned test suite (must pass),
run demo.py (must exit 1), revert, run demo.py (must exit 0)."""
import json, os, shutil, subprocess, sys, glob, time
src = sys.argv[1]
names = sys.argv[2:] or sorted(os.listdir(src))
WT = "/tmp/wt_verify_%d" % os.getpid()
def sh(cmd, cwd=None, env=None, timeout=1800):
    r = subprocess.run(cmd, shell=True, cwd=cwd, env=env, capture_output=True, text=True, timeout=timeout)
    return r.returncode, (r.stdout + r.stderr)
sh("git -C /repo worktree add -q --detach %s HEAD" % WT)
so = glob.glob("/repo/matid/ext.*.so")[0]
shutil.copy(so, WT + "/matid/")
env = dict(os.environ, PYTHONPATH=WT, PYTHONHASHSEED="0")
try:
    for n in names:
        d = os.path.join(src, n)
        if not os.path.exists(os.path.join(d, "patch.diff")):
            continue
        meta = {"id": n, "property": n.split("_")[0], "source": "independent sub-agent (given only the property text and a scratch worktree)", "verified_at_repo_head": sh("git -C /repo rev-parse --short HEAD")[1].strip()}
        rc, out = sh("git apply --3way %s && git reset -q" % os.path.join(d, "patch.diff"), cwd=WT)
        meta["applies"] = rc == 0
        if rc != 0:
            meta["apply_error"] = out[-500:]
        else:
            rc, out = sh("/venv/bin/python -m pytest -q -p no:cacheprovider --timeout=900 2>&1 | tail -1", cwd=WT, env=env)
            meta["tests_with_patch"] = out.strip()
            rc1, out1 = sh("/venv/bin/python %s" % os.path.join(d, "demo.py"), cwd=WT, env=env)
            meta["demo_with_patch_rc"] = rc1
            meta["demo_with_patch_tail"] = out1.strip()[-300:]
        sh("git reset -q --hard && git clean -fdq -e matid/ext*.so", cwd=WT)
        shutil.copy(so, WT + "/matid/")
        rc0, out0 = sh("/venv/bin/python %s" % os.path.join(d, "demo.py"), cwd=WT, env=env)
        meta["demo_without_patch_rc"] = rc0
        meta["confirmed"] = bool(meta.get("applies") and "110 passed" in meta.get("tests_with_patch", "") and meta.get("demo_with_patch_rc") == 1 and rc0 == 0)
        notes = os.path.join(d, "notes.txt")
        meta["needs_to_manifest"] = open(notes).read()[:1500] if os.path.exists(notes) else ""
        dst = os.path.join("/verif/seeded", n)
        os.makedirs(dst, exist_ok=True)
        shutil.copy(os.path.join(d, "patch.diff"), dst)
        shutil.copy(os.path.join(d, "demo.py"), dst)
        json.dump(meta, open(os.path.join(dst, "meta.json"), "w"), indent=1)
        print(n, "confirmed" if meta["confirmed"] else "NOT CONFIRMED", meta.get("tests_with_patch"), meta.get("demo_with_patch_rc"), rc0, flush=True)
finally:
    sh("git -C /repo worktree remove --force %s" % WT)
