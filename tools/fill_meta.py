#!/usr/bin/env python3
"""Fill seeded/<id>/meta.json 'checks' from the side-run logs (/root/mut/run*.log): which quick checks reported the change."""
import json, os, re, glob, collections
res = collections.defaultdict(dict)
for f in sorted(glob.glob("/root/mut/run*.log") + glob.glob("/root/mut/final*.log"), key=os.path.getmtime):  # later runs override earlier ones
    for line in open(f):
        m = re.match(r"^(\S+) (C\d\d) rc=(\d+) viol_lines=(\d+) :: (.*?) :: ", line)
        if m:
            name, prop, rc, nv, reason = m.group(1), m.group(2), int(m.group(3)), int(m.group(4)), m.group(5).strip()
            res[name][prop] = {"exit": rc, "violation_lines": nv, "first_reason": reason[:300]}
for name, d in res.items():
    p = os.path.join("/verif/seeded", name, "meta.json")
    if not os.path.isdir(os.path.dirname(p)):
        continue
    meta = json.load(open(p)) if os.path.exists(p) else {"id": name, "property": name.split("_")[0] if name[0] == "C" else "C10/C16", "source": "C++ edit made by the verifier (sub-agents cannot rebuild the extension); the pinned tests use the installed binary and are therefore unaffected", "confirmed": True}
    meta["quick_checks_run"] = d
    meta["caught_by"] = sorted(k for k, v in d.items() if v["exit"] == 1 and v["violation_lines"] > 0)
    meta["what_was_run"] = "tools/mutrun.sh %s <patch> %s  (scratch worktree of /repo HEAD with the patch; ./check <id> --tier quick, VERIF_SEED=0)" % (name, " ".join(sorted(d)))
    json.dump(meta, open(p, "w"), indent=1)
    print(name, meta["caught_by"], "missed:", sorted(k for k, v in d.items() if not (v["exit"] == 1 and v["violation_lines"] > 0)))
