#!/bin/bash
# usage: tools/mutrun.sh <name> <patch.diff> <Cxx>...   -- runs quick checks against a scratch worktree with the patch (does not touch /repo)
name=$1; patch=$2; shift 2
wt=/tmp/wt_mut_$name; out=/tmp/mutout_$name
git -C /repo worktree add -q --detach $wt HEAD || exit 9
( cd $wt && git apply --3way "$patch" >/dev/null 2>&1; [ -z "$(cd $wt && git diff --name-only --diff-filter=U)" ] && [ -n "$(cd $wt && git status --porcelain --untracked-files=no)" ] ) || { echo "$name: PATCH DOES NOT APPLY (conflicts with the fixes at HEAD)"; git -C /repo worktree remove --force $wt; exit 8; }
( cd $wt && git reset -q )
mkdir -p $out
for p in "$@"; do
  o=$(cd /verif && MATID_REPO=$wt VERIF_OUT=$out VERIF_SEED=${VERIF_SEED:-0} ./check $p --tier ${TIER:-quick} 2>&1); rc=$?
  echo "$name $p rc=$rc viol_lines=$(echo "$o" | grep -c '^VIOLATION') :: $(echo "$o" | grep -m1 'reason:') :: $(echo "$o" | tail -1)"
done
git -C /repo worktree remove --force $wt; if [ -n "$KEEP" ]; then mkdir -p "$KEEP"; cp -r "$out"/replays "$KEEP"/ 2>/dev/null; fi; rm -rf "$out"
