#!/bin/bash
# usage: tools/seedtest.sh <patch.diff> <Cxx> [<Cxx> ...]   -- applies a seeded change to /repo, runs the quick checks, reverts.
patch=$1; shift
cd /repo || exit 9
if [ -n "$(git status --porcelain --untracked-files=no)" ]; then echo "/repo not clean"; exit 9; fi
git apply --3way "$patch" 2>/tmp/seedtest.err || git apply "$patch" || { echo "PATCH DOES NOT APPLY"; cat /tmp/seedtest.err; git checkout -- . ; exit 8; }
git reset -q   # --3way stages; keep the working tree only
cd /verif
for p in "$@"; do
  out=$(VERIF_SEED=${VERIF_SEED:-0} ./check $p --tier ${TIER:-quick} 2>&1); rc=$?
  echo "== $p rc=$rc: $(echo "$out" | grep -c '^VIOLATION') VIOLATION lines; $(echo "$out" | grep -m1 'reason:' )"
  echo "$out" | tail -1
done
git -C /repo checkout -- . ; git -C /repo status --porcelain --untracked-files=no
