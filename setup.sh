#!/bin/bash
# Offline setup: compile the C++ core of the working tree once (cached by source hash) and byte-compile nothing else.
cd "$(dirname "$0")"
export PYTHONPATH=/verif PYTHONPYCACHEPREFIX=/verif/build/pycache
mkdir -p build evidence replays
/venv/bin/python -c "from mc import extshim; print(extshim.build())"
