"""Shared finite alphabets (cells, rotations, grids, cutoffs) and the brute-force
geometric reference models (lattice sums, MIC, point-to-cell distance,
periodic bonding-graph rank). Pure numpy; nothing here calls matid."""
import itertools
from fractions import Fraction

import numpy as np

# ---------------------------------------------------------------- constants
# Vetted "generic" rows; VERIF_SEED % 4 picks one.  Nothing is drawn at random.
GENERIC_OFFSETS = [
    np.array([0.0131, 0.0273, 0.0419]),
    np.array([0.0417, 0.0139, 0.0283]),
    np.array([0.0229, 0.0437, 0.0151]),
    np.array([0.0311, 0.0193, 0.0457]),
]
GENERIC_ANGLES = [
    ((0.3, 0.5, 0.81), 37.3),
    ((0.71, 0.2, 0.45), 63.1),
    ((0.1, 0.93, 0.37), 101.7),
    ((0.58, 0.61, 0.33), 149.2),
]


def rot_axis(axis, deg):
    a = np.asarray(axis, float)
    a = a / np.linalg.norm(a)
    t = np.deg2rad(deg)
    K = np.array([[0, -a[2], a[1]], [a[2], 0, -a[0]], [-a[1], a[0], 0]])
    return np.eye(3) + np.sin(t) * K + (1 - np.cos(t)) * K @ K


def generic_rotations(seed, n=2):
    out = []
    for k in range(n):
        ax, deg = GENERIC_ANGLES[(seed + k) % 4]
        out.append(rot_axis(ax, deg))
    return out


def cubic_rotations():
    """The 24 proper rotations of the cube as integer matrices."""
    out = []
    for perm in itertools.permutations(range(3)):
        for signs in itertools.product([1, -1], repeat=3):
            m = np.zeros((3, 3))
            for i, p in enumerate(perm):
                m[i, p] = signs[i]
            if round(np.linalg.det(m)) == 1:
                out.append(m)
    return out


def triclinic_cell(a, b, c, al, be, ga):
    al, be, ga = np.deg2rad([al, be, ga])
    va = np.array([a, 0, 0])
    vb = np.array([b * np.cos(ga), b * np.sin(ga), 0])
    cx = c * np.cos(be)
    cy = c * (np.cos(al) - np.cos(be) * np.cos(ga)) / np.sin(ga)
    cz = np.sqrt(max(c * c - cx * cx - cy * cy, 0))
    return np.array([va, vb, [cx, cy, cz]])


def shear_matrix(s1, s2, s3):
    """Upper-triangular unimodular integer matrix: rows a, b+s1 a, c+s2 a+s3 b."""
    return np.array([[1, 0, 0], [s1, 1, 0], [s2, s3, 1]], dtype=float)


def base_cells():
    return {
        "cubic2": np.eye(3) * 2.0,
        "cubic4": np.eye(3) * 4.0,
        "needle": np.diag([2.0, 2.0, 9.0]),
        "plate": np.diag([7.0, 7.0, 2.0]),
        "tric": triclinic_cell(3, 4, 5, 70, 80, 100),
    }


def sheared_cells(smax=2):
    out = {}
    for s in itertools.product(range(-smax, smax + 1), repeat=3):
        if s == (0, 0, 0):
            continue
        out["shear%+d%+d%+d" % s] = shear_matrix(*s) @ (np.eye(3) * 4.0)
    return out


PBCS = [tuple(bool(b) for b in m) for m in itertools.product([0, 1], repeat=3)]


def heights(cell):
    """Perpendicular heights of a non-singular cell."""
    V = abs(np.linalg.det(cell))
    return np.array(
        [V / np.linalg.norm(np.cross(cell[(i + 1) % 3], cell[(i + 2) % 3])) for i in range(3)]
    )


def grid(m):
    return [np.array(f, float) / m for f in itertools.product(range(m), repeat=3)]


# ---------------------------------------------------------------- lattice sums
def _complete(cell, pbc):
    """Basis whose periodic rows are the periodic cell vectors and whose other
    rows are unit vectors orthogonal to the periodic sub-space (used only to get
    heights of the periodic sub-lattice)."""
    per = [cell[k] for k in range(3) if pbc[k]]
    return np.array(per, float).reshape(-1, 3)


def _reduce(per):
    """Lagrange/greedy pairwise reduction of up to three vectors (enough to make
    the enumeration box small; correctness never depends on how reduced it is
    because the box is derived from the heights of whatever basis results)."""
    B = [np.array(v, float) for v in per]
    changed = True
    it = 0
    while changed and it < 200:
        changed = False
        it += 1
        for i in range(len(B)):
            for j in range(len(B)):
                if i == j:
                    continue
                mu = round(float(B[i] @ B[j]) / float(B[j] @ B[j]))
                if mu != 0:
                    cand = B[i] - mu * B[j]
                    if cand @ cand < B[i] @ B[i] - 1e-12:
                        B[i] = cand
                        changed = True
    return np.array(B).reshape(-1, 3)


def _sub_heights(B):
    """Heights of each basis vector over the span of the others, for 1-3 vectors."""
    p = len(B)
    hs = []
    for k in range(p):
        others = [B[j] for j in range(p) if j != k]
        v = B[k].copy()
        if others:
            Q, _ = np.linalg.qr(np.array(others).T)
            v = v - Q @ (Q.T @ v)
        hs.append(np.linalg.norm(v))
    return np.array(hs)


def lattice_vectors(cell, pbc, D):
    """All lattice vectors n.cell (n integer, n_k = 0 where not periodic) of
    norm <= D (a superset is returned). Enumerated in a reduced basis of the
    periodic sub-lattice: a vector of norm <= D has reduced coefficient |c_k|
    <= D / h_k with h_k the height of reduced vector k over the others."""
    per = _complete(cell, pbc)
    if len(per) == 0:
        return np.zeros((1, 3))
    B = _reduce(per)
    hs = _sub_heights(B)
    rng = [range(-int(np.floor(D / h + 1e-9)) - 1, int(np.floor(D / h + 1e-9)) + 2) for h in hs]
    coeff = np.array(list(itertools.product(*rng)), float)
    V = coeff @ B
    return V[(V**2).sum(1) <= (D + 1e-9) ** 2]


def max_diagonal(cell):
    """Largest distance between two points of the closed cell parallelepiped."""
    cell = np.asarray(cell, float)
    return max(np.linalg.norm(np.array(s) @ cell) for s in itertools.product((1, -1), repeat=3))


def mic_table(pos, cell, pbc, L=None):
    """Brute-force minimum-image distances: min over the lattice-vector set L of
    |r_i - r_j - l|.  L must contain every lattice vector of norm <= 2*max|r_i-r_j|
    (then the true minimum, which is <= |r_i - r_j|, is in the set)."""
    pos = np.asarray(pos, float)
    n = len(pos)
    d = pos[:, None, :] - pos[None, :, :]
    if L is None:
        D = 2 * np.sqrt((d**2).sum(-1)).max() + 1e-9
        L = lattice_vectors(cell, pbc, D)
    return np.sqrt(((d[:, :, None, :] - L[None, None, :, :]) ** 2).sum(-1).min(-1))


def integer_factor(vec, cell, pbc, tol=1e-7):
    """vec = f.cell with integer f vanishing on non-periodic axes?  Returns f or None."""
    try:
        f = np.linalg.solve(np.asarray(cell, float).T, np.asarray(vec, float))
    except np.linalg.LinAlgError:
        return None
    fr = np.round(f)
    if np.abs(f - fr).max() > tol:
        return None
    for k in range(3):
        if not pbc[k] and fr[k] != 0:
            return None
    return fr


# ---------------------------------------------------------------- point to cell distance
def dist_point_cell(p, cell):
    """Exact distance from point p to the parallelepiped {s.cell : s in [0,1]^3}:
    minimise |s.cell - p| over the box by enumerating the 27 active sets."""
    cell = np.asarray(cell, float)
    best = np.inf
    for act in itertools.product((None, 0.0, 1.0), repeat=3):
        free = [k for k in range(3) if act[k] is None]
        s = np.array([0.0 if a is None else a for a in act])
        if free:
            A = cell[free].T  # 3 x nfree
            rhs = p - s @ cell
            sol, *_ = np.linalg.lstsq(A, rhs, rcond=None)
            if np.any(sol < -1e-12) or np.any(sol > 1 + 1e-12):
                continue
            s[free] = sol
        best = min(best, np.linalg.norm(s @ cell - p))
    return best


def dist_points_cell(P, cell):
    """Vectorised dist_point_cell for an (N,3) array of points."""
    cell = np.asarray(cell, float)
    P = np.asarray(P, float).reshape(-1, 3)
    best = np.full(len(P), np.inf)
    for act in itertools.product((None, 0.0, 1.0), repeat=3):
        free = [k for k in range(3) if act[k] is None]
        s0 = np.array([0.0 if a is None else a for a in act])
        base = s0 @ cell
        if free:
            A = cell[free]  # nfree x 3
            pinv = np.linalg.pinv(A.T)  # nfree x 3
            sol = (P - base[None, :]) @ pinv.T  # N x nfree
            ok = np.all((sol >= -1e-12) & (sol <= 1 + 1e-12), axis=1)
            d = np.linalg.norm(sol @ A + base[None, :] - P, axis=1)
            d[~ok] = np.inf
        else:
            d = np.linalg.norm(base[None, :] - P, axis=1)
        best = np.minimum(best, d)
    return best


# ---------------------------------------------------------------- periodic bonding graph
def rank_int(vs):
    M = [[Fraction(int(x)) for x in v] for v in vs]
    r = 0
    for c in range(3):
        piv = None
        for i in range(r, len(M)):
            if M[i][c] != 0:
                piv = i
                break
        if piv is None:
            continue
        M[r], M[piv] = M[piv], M[r]
        for i in range(len(M)):
            if i != r and M[i][c] != 0:
                f = M[i][c] / M[r][c]
                M[i] = [a - f * b for a, b in zip(M[i], M[r])]
        r += 1
    return r


def rank_gf2(vs):
    M = [[int(x) % 2 for x in v] for v in vs]
    r = 0
    for c in range(3):
        piv = None
        for i in range(r, len(M)):
            if M[i][c]:
                piv = i
                break
        if piv is None:
            continue
        M[r], M[piv] = M[piv], M[r]
        for i in range(len(M)):
            if i != r and M[i][c]:
                M[i] = [(a + b) % 2 for a, b in zip(M[i], M[r])]
        r += 1
    return r


def periodic_rank(pos, cell, pbc, radii, thr, eps=0.0):
    """Reference model for C09/C13/C17.

    bonds = all (i, j, n) with |r_i - r_j - n.cell| - R_i - R_j <= thr + eps
    (n integer, zero along non-periodic axes).  Returns (n_components, rank_Z,
    rank_GF2) of the translation lattice generated by the cycles of the bonded
    quotient graph (via offsets on a spanning forest)."""
    pos = np.asarray(pos, float)
    cell = np.asarray(cell, float)
    radii = np.asarray(radii, float)
    n = len(pos)
    anyp = any(pbc)
    dmat = pos[:, None, :] - pos[None, :, :]
    D = thr + abs(eps) + 2 * radii.max() + 1e-9
    if anyp:
        # a bond vector r_i - r_j - l has norm <= D  =>  |l| <= D + |r_i - r_j|
        L = lattice_vectors(cell, pbc, D + np.sqrt((dmat**2).sum(-1)).max())
        inv = np.linalg.inv(np.where(np.abs(cell).sum(1, keepdims=True) > 0, cell, np.eye(3)))
        Ln = np.rint(L @ inv).astype(int)
    else:
        L = np.zeros((1, 3))
        Ln = np.zeros((1, 3), int)
    adj = [[] for _ in range(n)]
    edges = []
    for i in range(n):
        for j in range(n):
            dist = np.sqrt(((dmat[i, j][None, :] - L) ** 2).sum(-1))
            ok = dist - radii[i] - radii[j] <= thr + eps
            for k in np.nonzero(ok)[0]:
                if i == j and not Ln[k].any():
                    continue
                adj[i].append((j, Ln[k]))
                edges.append((i, j, Ln[k]))
    off = {}
    ncomp = 0
    for s in range(n):
        if s in off:
            continue
        ncomp += 1
        off[s] = np.zeros(3, int)
        stack = [s]
        while stack:
            u = stack.pop()
            for v, nv in adj[u]:
                if v not in off:
                    # bond: r_u ~ r_v + nv.cell, so the copy of u at off[u] touches the copy of v at off[u] + nv
                    off[v] = off[u] + nv
                    stack.append(v)
    if ncomp > 1:
        return ncomp, None, None
    cyc = [off[u] + nv - off[v] for u, v, nv in edges]
    cyc = [c for c in cyc if np.any(c != 0)]
    if not cyc:
        return 1, 0, 0
    return 1, rank_int(cyc), rank_gf2(cyc)
