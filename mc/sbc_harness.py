"""Scripted control of SBC's only source of nondeterminism (the seed-atom choice)
and a small deviation-bounded enumerator of its choice tree."""
import numpy as np


class _Chooser:
    def __init__(self, script, trace):
        self.script = list(script)
        self.trace = trace
        self.k = 0

    def choice(self, candidates, size=None, *a, **kw):
        cand = sorted(int(c) for c in candidates)  # list order depends on set history: canonicalise
        want = self.script[self.k] if self.k < len(self.script) else 0
        if want >= len(cand):
            raise IndexError("script choice %d out of range (%d candidates) at call %d" % (want, len(cand), self.k))
        self.trace.append((len(cand), want, cand[want]))
        self.k += 1
        return np.array([cand[want]])


class _RandomProxy:
    def __init__(self, real, factory):
        self._real = real
        self._factory = factory

    def default_rng(self, seed=None):
        return self._factory(seed)

    def __getattr__(self, name):
        return getattr(self._real, name)


class _NumpyProxy:
    def __init__(self, factory):
        self.random = _RandomProxy(np.random, factory)

    def __getattr__(self, name):
        return getattr(np, name)


def run_scripted(atoms, script, **params):
    """SBC().get_clusters with the seed choices taken from `script` (indices into the
    sorted candidate list; 0 beyond the end). Returns (clusters, trace, consulted)."""
    import matid.clustering.sbc as sbcmod

    trace = []
    saved = sbcmod.np
    sbcmod.np = _NumpyProxy(lambda seed: _Chooser(script, trace))
    try:
        clusters = sbcmod.SBC().get_clusters(atoms, **params)
    finally:
        sbcmod.np = saved
    return clusters, trace


def enumerate_scripts(atoms, params, first="all", later_dev=1, first_classes=None, max_runs=400, later_alts="all", later_for_first=None):
    """Deviation-bounded enumeration of the choice tree.  Yields (script, clusters, trace).
    first: 'all' (every first choice) or 'classes' (first_classes: list of candidate ranks);
    later_dev: maximal number of non-default choices after the first call."""
    seen = set()
    runs = 0
    stack = [((), 0)]
    while stack:
        script, ndev = stack.pop()
        if script in seen:
            continue
        seen.add(script)
        if runs >= max_runs:
            yield None, None, None  # cap marker
            return
        clusters, trace = run_scripted(atoms, list(script), **params)
        runs += 1
        yield script, clusters, trace
        for i in range(len(script), len(trace)):
            ncand = trace[i][0]
            base = tuple(t[1] for t in trace[:i])
            if i == 0:
                alts = range(1, ncand) if first == "all" else [a for a in (first_classes or []) if 0 < a < ncand]
                for alt in alts:
                    stack.append((base + (alt,), ndev))
            elif ndev < later_dev and (later_for_first is None or (trace[0][1] in later_for_first)):
                alts = range(1, ncand) if later_alts == "all" else sorted({1, ncand // 2, ncand - 1} - {0})
                for alt in alts:
                    if alt < ncand:
                        stack.append((base + (alt,), ndev + 1))
