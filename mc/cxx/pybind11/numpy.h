// Minimal stand-in for the subset of pybind11::array_t used by matid/ext/{geometry,celllist}.cpp
#pragma once
#include <vector>
#include <memory>
#include <initializer_list>
#include <cstddef>
#include <cmath>
#include <stdexcept>
#include <unordered_map>
#include <string>
#include <tuple>
namespace pybind11 {
typedef long ssize_t;
template <typename T, int N> struct uref {
    T* p; ssize_t s[3];
    ssize_t shape(int i) const { return s[i]; }
    T& operator()(ssize_t i) const { return p[i]; }
    T& operator()(ssize_t i, ssize_t j) const { return p[i*s[1]+j]; }
    T& operator()(ssize_t i, ssize_t j, ssize_t k) const { return p[(i*s[1]+j)*s[2]+k]; }
};
template <typename T> class array_t {
public:
    std::shared_ptr<std::vector<T>> own; T* ptr=nullptr; std::vector<ssize_t> shp;
    array_t() {}
    template <typename I> array_t(std::initializer_list<I> shape) { size_t n=1; for (auto s: shape){shp.push_back(s); n*=s;} own=std::make_shared<std::vector<T>>(n); ptr=own->data(); }
    array_t(T* p, std::vector<ssize_t> s): ptr(p), shp(s) {}
    ssize_t size() const { ssize_t n=1; for (auto s: shp) n*=s; return n; }
    ssize_t shape(int i) const { return shp[i]; }
    template <int N> uref<T,N> unchecked() const { uref<T,N> r; r.p=ptr; for(int i=0;i<3;i++) r.s[i]= i<(int)shp.size()? shp[i]:1; return r; }
    template <int N> uref<T,N> mutable_unchecked() { return unchecked<N>(); }
};
}
