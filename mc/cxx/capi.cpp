// C ABI wrapper around the *unmodified* matid/ext/{geometry,celllist}.cpp,
// compiled against the pybind11 stand-in in ./pybind11 (the image has no
// pybind11 headers, so ext.cpp itself cannot be built).
#include "geometry.h"
#include <cstring>

static thread_local std::string g_err;

extern "C" {

const char* mv_last_error() { return g_err.c_str(); }

int mv_displacement_tensor(double* disp, double* dist, double* fac, double* pos, int n,
                           double* cell, bool* pbc, double cutoff, int ret_f, int ret_d) {
    try {
        std::vector<py::ssize_t> s3 = {n, n, 3}, s2 = {n, n}, sp = {n, 3}, sc = {3, 3}, sb = {3};
        get_displacement_tensor(py::array_t<double>(disp, s3), py::array_t<double>(dist, s2),
                                py::array_t<double>(fac, s3), py::array_t<double>(pos, sp),
                                py::array_t<double>(cell, sc), py::array_t<bool>(pbc, sb),
                                cutoff, ret_f != 0, ret_d != 0);
        return 0;
    } catch (std::invalid_argument& e) { g_err = e.what(); return 1;
    } catch (std::exception& e) { g_err = e.what(); return 2; }
}

// ---- extended system
void* mv_extend_system(double* pos, int* num, int n, double* cell, bool* pbc, double cutoff, int* status) {
    try {
        std::vector<py::ssize_t> sp = {n, 3}, sn = {n}, sc = {3, 3}, sb = {3};
        ExtendedSystem* s = new ExtendedSystem(extend_system(
            py::array_t<double>(pos, sp), py::array_t<int>(num, sn),
            py::array_t<double>(cell, sc), py::array_t<bool>(pbc, sb), cutoff));
        *status = 0;
        return s;
    } catch (std::invalid_argument& e) { g_err = e.what(); *status = 1; return nullptr;
    } catch (std::exception& e) { g_err = e.what(); *status = 2; return nullptr; }
}
long mv_ext_size(void* h) { return ((ExtendedSystem*)h)->atomic_numbers.size(); }
void mv_ext_copy(void* h, double* pos, int* num, int* idx, double* fac) {
    ExtendedSystem* s = (ExtendedSystem*)h;
    long n = s->atomic_numbers.size();
    std::memcpy(pos, s->positions.ptr, sizeof(double) * 3 * n);
    std::memcpy(num, s->atomic_numbers.ptr, sizeof(int) * n);
    std::memcpy(idx, s->indices.ptr, sizeof(int) * n);
    std::memcpy(fac, s->factors.ptr, sizeof(double) * 3 * n);
}
void mv_ext_free(void* h) { delete (ExtendedSystem*)h; }

// ---- cell list
void* mv_cell_list(double* pos, int n, double* cell, bool* pbc, double extension, double cutoff, int* status) {
    try {
        std::vector<py::ssize_t> sp = {n, 3}, sc = {3, 3}, sb = {3};
        CellList* c = new CellList(get_cell_list(py::array_t<double>(pos, sp), py::array_t<double>(cell, sc),
                                                 py::array_t<bool>(pbc, sb), extension, cutoff));
        *status = 0;
        return c;
    } catch (std::invalid_argument& e) { g_err = e.what(); *status = 1; return nullptr;
    } catch (std::exception& e) { g_err = e.what(); *status = 2; return nullptr; }
}
void* mv_cell_list_raw(double* pos, int* idx, double* fac, int n, double cutoff, int* status) {
    try {
        std::vector<py::ssize_t> sp = {n, 3}, sn = {n};
        // the constructor copies positions/factors but keeps `indices` alive via indices_py
        py::array_t<int> ind({n});
        std::memcpy(ind.ptr, idx, sizeof(int) * n);
        CellList* c = new CellList(py::array_t<double>(pos, sp), ind, py::array_t<double>(fac, sp), cutoff);
        *status = 0;
        return c;
    } catch (std::invalid_argument& e) { g_err = e.what(); *status = 1; return nullptr;
    } catch (std::exception& e) { g_err = e.what(); *status = 2; return nullptr; }
}
void mv_cell_list_free(void* h) { delete (CellList*)h; }

void* mv_query_position(void* h, double x, double y, double z) {
    return new CellListResult(((CellList*)h)->get_neighbours_for_position(x, y, z));
}
void* mv_query_index(void* h, int i) {
    return new CellListResult(((CellList*)h)->get_neighbours_for_index(i));
}
long mv_result_size(void* r) { return ((CellListResult*)r)->indices.size(); }
void mv_result_copy(void* r, int* indices, int* indices_original, double* distances,
                    double* distances_squared, double* displacements, double* factors) {
    CellListResult* res = (CellListResult*)r;
    size_t n = res->indices.size();
    for (size_t i = 0; i < n; ++i) {
        indices[i] = res->indices[i];
        indices_original[i] = res->indices_original[i];
        distances[i] = res->distances[i];
        distances_squared[i] = res->distances_squared[i];
        for (int k = 0; k < 3; ++k) {
            displacements[3 * i + k] = res->displacements[i][k];
            factors[3 * i + k] = res->factors[i][k];
        }
    }
}
void mv_result_free(void* r) { delete (CellListResult*)r; }
}
