"""Family B (symmetric crystals): roots, presentations, one analysis record per
state, and the reference oracles for C05, C06, C07, C08, C12, C15."""
import itertools

import numpy as np
import spglib

from mc import geom, present, sym
from mc.present import S

TOL = 0.01  # symmetry tolerance handed to the analyser for exact symmetric inputs
Z1, Z2 = 29, 47


# ------------------------------------------------------------------ roots
def root_list(tier, seed, kinds=("1a", "1n", "2n")):
    """Root descriptors (sg, occupied, anchor)."""
    out = []
    for sg in range(1, 231):
        lets = sym.letters(sg)
        if "1a" in kinds:
            for l in lets:
                out.append((sg, ((l, Z1),), True))
        if "1n" in kinds:
            for l in lets:
                out.append((sg, ((l, Z1),), False))
        if "2n" in kinds:
            if tier == "quick":
                # the first letter pinned by one species + every other letter (this is what makes the
                # normalizer search choose non-identity elements), and every second consecutive pair
                pairs = [(lets[0], x) for x in lets[1:]] + [(lets[i], lets[i + 1]) for i in range(1, len(lets) - 1, 2)]
                pats = [(Z1, Z2)]
            else:
                pairs = list(itertools.combinations_with_replacement(lets, 2))
                pats = [(Z1, Z2), (Z2, Z1), (Z1, Z1)]
            for a, b in pairs:
                for za, zb in pats:
                    if a == b and za != zb and (za, zb) != pats[0]:
                        continue
                    out.append((sg, ((a, za), (b, zb)), False))
        if "2s" in kinds:
            # the same letter occupied twice by the same species with different free parameters
            from matid.data.symmetry_data import WYCKOFF_SETS

            for l in lets:
                if WYCKOFF_SETS[sg][l]["variables"]:
                    out.append((sg, ((l, Z1), (l, Z1)), False))
        if "2a" in kinds:
            pairs = [(lets[0], x) for x in lets[1:]]
            if tier != "quick":
                pairs += [(lets[i], lets[i + 1]) for i in range(1, len(lets) - 1)]
            for a, b in pairs:
                out.append((sg, ((a, Z1), (b, Z2)), True))
    return out


def build_root(desc, seed, cap):
    sg, occ, anchor = desc
    at = sym.crystal(sg, list(occ), anchor=anchor, seed=seed)
    if len(at) > cap:
        return None
    return S(at.get_atomic_numbers(), at.get_positions(), np.array(at.get_cell()), (True, True, True))


def well_conditioned(s, tol=TOL):
    """The property discards inputs whose symmetry is not stable across a 100x tolerance window."""
    at = s.atoms()
    nums = []
    for t in (tol / 10, tol, tol * 10):
        ds = sym.spg_dataset(at, t)
        if ds is None:
            return None
        nums.append(ds.number)
    if len(set(nums)) != 1:
        return None
    return nums[0]


def presentations3d(s, tier, seed):
    gr = geom.generic_rotations(seed, 2)
    n = len(s.num)
    out = [("id", s)]
    out.append(("rot.g0", present.rotate(s, gr[0])))
    out.append(("trans", present.translate(s, np.array([1.7, -2.3, 0.9]))))
    out.append(("perm.rev", present.permute(s, list(range(n))[::-1])))
    sh = present.shears(s)
    out.append((sh[2][0], present.basis_change(s, sh[2][1])))
    out.append(("super2@0", present.supercell(s, np.diag([2, 1, 1]))))
    out.append(("super.rot45", present.supercell(s, [[1, 1, 0], [-1, 1, 0], [0, 0, 1]])))
    # left-handed description of the same crystal (two cell vectors exchanged) and a strongly sheared basis (b + 2a, c - 2b)
    out.append(("axes.swap01", present.relabel_axes(s, (1, 0, 2))))
    out.append(("shear.strong", present.basis_change(s, np.array([[1, 0, 0], [2, 1, 0], [0, -2, 1]]))))
    if tier != "quick":
        out.append(("rot.z90", present.rotate(s, geom.rot_axis((0, 0, 1), 90))))
        out.append(("rot.g1+trans", present.translate(present.rotate(s, gr[1]), np.array([-4.1, 0.3, 2.2]), rewrap=True)))
        out.append(("perm.roll", present.permute(s, list(range(1, n)) + [0])))
        out.append(("super2@1", present.supercell(s, np.diag([1, 2, 1]))))
        out.append(("super3@2", present.supercell(s, np.diag([1, 1, 3]))))
        out.append(("super221", present.supercell(s, np.diag([2, 2, 1]))))
        out.append((sh[5][0] + ".unwrapped", present.basis_change(s, sh[5][1], rewrap=False)))
        out.append(("shift(0,+1@2)", present.shift_atom(s, 0, 2, 1)))
        out.append(("super2@0+shear", present.basis_change(present.supercell(s, np.diag([2, 1, 1])), sh[9][1])))
    return out


# ------------------------------------------------------------------ analysis record
def analyse(s, tol=TOL, parts=("conv", "sets", "params", "prim", "orig")):
    """Runs the real SymmetryAnalyzer on one presentation; every observable as plain data."""
    from matid.symmetry import SymmetryAnalyzer

    at = s.atoms()
    an = SymmetryAnalyzer(at, tol)
    rec = {"n_in": len(at), "vol_in": float(at.get_volume()), "num_in": sorted(at.get_atomic_numbers().tolist())}
    rec["sg"] = int(an.get_space_group_number())
    rec["hall"] = int(an.get_hall_number())
    rec["pg"] = str(an.get_point_group())
    rec["bravais"] = str(an.get_bravais_lattice())
    rec["system"] = str(an.get_crystal_system())
    rec["short"] = str(an.get_space_group_international_short())
    conv = an.get_conventional_system()
    rec["conv_num"] = conv.get_atomic_numbers().tolist()
    rec["conv_frac"] = conv.get_scaled_positions(wrap=False)
    rec["conv_cell"] = np.array(conv.get_cell())
    rec["conv_pbc"] = conv.get_pbc().tolist()
    rec["conv_letters"] = [str(x) for x in an.get_wyckoff_letters_conventional()]
    rec["conv_equiv"] = [int(x) for x in an.get_equivalent_atoms_conventional()]
    rec["id"] = an.get_material_id()
    rec["has_free"] = bool(an.get_has_free_wyckoff_parameters())
    rec["chiral"] = bool(an.get_is_chiral())
    if "sets" in parts:
        rec["sets"] = [
            {"letter": w.wyckoff_letter, "element": w.element, "Z": w.atomic_number, "indices": [int(i) for i in w.indices],
             "mult": w.multiplicity, "rep": list(w.representative) if w.representative is not None else None, "sg": w.space_group}
            for w in an.get_wyckoff_sets_conventional(return_parameters=False)
        ]
    if "params" in parts:
        try:
            rec["psets"] = [
                {"letter": w.wyckoff_letter, "Z": w.atomic_number, "indices": [int(i) for i in w.indices], "rep": list(w.representative),
                 "x": w.x, "y": w.y, "z": w.z}
                for w in an.get_wyckoff_sets_conventional(return_parameters=True)
            ]
        except Exception as e:
            rec["psets_exc"] = repr(e)
    if "prim" in parts:
        prim = an.get_primitive_system()
        rec["prim_num"] = prim.get_atomic_numbers().tolist()
        rec["prim_frac"] = prim.get_scaled_positions(wrap=False)
        rec["prim_cell"] = np.array(prim.get_cell())
        rec["prim_letters"] = [str(x) for x in an.get_wyckoff_letters_primitive()]
        rec["prim_equiv"] = [int(x) for x in an.get_equivalent_atoms_primitive()]
    if "orig" in parts:
        rec["orig_letters"] = [str(x) for x in an.get_wyckoff_letters_original()]
        rec["orig_equiv"] = [int(x) for x in an.get_equivalent_atoms_original()]
        rec["orig_num"] = at.get_atomic_numbers().tolist()
    return rec


def conv_dataset(rec, tol=TOL):
    return spglib.get_symmetry_dataset((rec["conv_cell"], rec["conv_frac"] % 1.0, rec["conv_num"]), symprec=tol)


# ------------------------------------------------------------------ helpers
def cellpar(cell):
    from ase.cell import Cell

    return np.array(Cell(cell).cellpar())


def match_sets(fracA, numA, fracB, numB, cell, tol):
    """Same multiset of (species, position mod lattice)?  (vectorised nearest-neighbour bijection)"""
    if sorted(numA) != sorted(numB):
        return False
    fracA, fracB = np.asarray(fracA, float), np.asarray(fracB, float)
    numA, numB = np.asarray(numA), np.asarray(numB)
    d = sym.fdiff(fracA[:, None, :], fracB[None, :, :]) @ cell
    D = np.sqrt((d**2).sum(-1))
    D[numA[:, None] != numB[None, :]] = np.inf
    j = D.argmin(1)
    if D[np.arange(len(fracA)), j].max() > tol:
        return False
    return len(set(j.tolist())) == len(fracA)


def lattice_automorphisms(cell):
    """Integer matrices with entries in {-1,0,1} and det +-1 that preserve the metric of the cell (<= 48)."""
    G = cell @ cell.T
    out = []
    for ent in itertools.product((-1, 0, 1), repeat=9):
        Q = np.array(ent, float).reshape(3, 3)
        d = round(np.linalg.det(Q))
        if abs(d) != 1:
            continue
        if np.abs(Q.T @ G @ Q - G).max() < 1e-6 * np.abs(G).max():
            out.append((Q, d))
    return out


_auto_cache = {}


def congruent(fracA, numA, fracB, numB, cell, tol):
    """Is crystal B the image of crystal A (same conventional lattice) under a rigid motion that maps the
    lattice onto itself?  Returns 'proper', 'improper-only' or 'none'."""
    key = tuple(np.round(cellpar(cell), 6))
    if key not in _auto_cache:
        _auto_cache[key] = lattice_automorphisms(cell)
    numA, numB = np.asarray(numA), np.asarray(numB)
    vals, counts = np.unique(numA, return_counts=True)
    z0 = vals[np.argmin(counts)]
    a0 = np.asarray(fracA)[numA == z0][0]
    found_improper = False
    for Q, d in sorted(_auto_cache[key], key=lambda q: -q[1]):
        # fractional column coordinates transform as x' = Q x + t
        QA = np.asarray(fracA) @ Q.T
        for b in np.asarray(fracB)[numB == z0]:
            t = b - Q @ a0
            if match_sets(QA + t[None, :], numA, fracB, numB, cell, tol):
                if d == 1:
                    return "proper"
                found_improper = True
                break
    return "improper-only" if found_improper else "none"


# ------------------------------------------------------------------ oracles (each returns [(kind, detail)])
def oracle_c05(s, rec, sg_ref, tol=TOL):
    v = []
    at = s.atoms()
    ds_in = sym.spg_dataset(at, tol)
    ds_out = conv_dataset(rec, tol)
    if rec["sg"] != sg_ref:
        v.append(("sg_reported", "analyzer reports space group %d, independent search on the input gives %d" % (rec["sg"], sg_ref)))
    if ds_out is None or ds_out.number != sg_ref:
        v.append(("sg_of_result", "independent symmetry search on the returned conventional cell gives %s, input has %d" % (None if ds_out is None else ds_out.number, sg_ref)))
        return v
    cell = rec["conv_cell"]
    if np.linalg.det(cell) <= 0:
        v.append(("left_handed_cell", "returned conventional cell is left-handed"))
    cp_ref = cellpar(np.array(ds_in.std_lattice))
    cp = cellpar(cell)
    if np.abs(cp - cp_ref).max() > 1e-4 * (1 + cp_ref.max()):
        v.append(("std_lattice", "conventional cell parameters %s differ from the standardized lattice %s" % (np.round(cp, 5).tolist(), np.round(cp_ref, 5).tolist())))
        return v
    n_out = len(rec["conv_num"])
    if abs(n_out / abs(np.linalg.det(cell)) - rec["n_in"] / rec["vol_in"]) > 1e-6 * rec["n_in"] / rec["vol_in"]:
        v.append(("density", "atoms per volume changed: %r vs %r" % (n_out / abs(np.linalg.det(cell)), rec["n_in"] / rec["vol_in"])))
    cin = np.unique(rec["num_in"], return_counts=True)
    cout = np.unique(rec["conv_num"], return_counts=True)
    if cin[0].tolist() != cout[0].tolist() or np.abs(cin[1] / cin[1].sum() - cout[1] / cout[1].sum()).max() > 1e-9:
        v.append(("composition", "composition changed"))
        return v
    # std atoms of the input expressed in the lattice of the returned cell (same metric; orientation may differ)
    res = congruent(np.array(ds_in.std_positions), np.array(ds_in.std_types), rec["conv_frac"], rec["conv_num"], cell, 10 * tol)
    if res == "improper-only":
        v.append(("mirror_image", "the returned conventional cell is the mirror image of the standardized input (no proper rigid motion maps one onto the other)"))
    elif res == "none":
        v.append(("different_crystal", "no lattice-preserving rigid motion maps the standardized input atoms onto the returned atoms"))
    return v


def normal_form(rec):
    sets = sorted((w["letter"], w["element"], w["mult"]) for w in rec["sets"])
    return (rec["id"], rec["sg"], rec["hall"], rec["pg"], rec["bravais"], rec["system"], tuple(sets), rec["has_free"])


FIELDS = ("material id", "space group", "Hall number", "point group", "Bravais lattice", "crystal system", "(letter, element, multiplicity) multiset", "has-free-parameters flag")


def oracle_c06(root_rec, rec):
    v = []
    a, b = normal_form(root_rec), normal_form(rec)
    for name, x, y in zip(FIELDS, a, b):
        if x != y:
            v.append(("normal_form", "%s differs between two presentations of one crystal: %r vs %r" % (name, x, y)))
            break
    return v


def oracle_c06_cell(root_rec, rec, tol=TOL):
    """Only for roots without free parameters in a metrically fixed lattice type."""
    v = []
    if np.abs(cellpar(root_rec["conv_cell"]) - cellpar(rec["conv_cell"])).max() > 1e-4:
        v.append(("cell_identical", "conventional lattice parameters differ: %s vs %s" % (cellpar(root_rec["conv_cell"]).round(5).tolist(), cellpar(rec["conv_cell"]).round(5).tolist())))
    elif not match_sets(root_rec["conv_frac"], root_rec["conv_num"], rec["conv_frac"], rec["conv_num"], rec["conv_cell"], 10 * tol):
        v.append(("positions_identical", "the set of atomic positions of the conventional cell differs between two presentations of a parameter-free crystal"))
    return v


def independent_letter(sg, p):
    from mc.props.c14 import identify

    return identify(sg, p % 1.0)


def oracle_c07(rec, tol=TOL):
    v = []
    n = len(rec["conv_num"])
    idx = sorted(i for w in rec["sets"] for i in w["indices"])
    if idx != list(range(n)):
        v.append(("partition", "Wyckoff sets do not partition the atoms of the conventional cell (%d atoms, set indices %s...)" % (n, idx[:12])))
        return v, False
    from ase.data import chemical_symbols

    cell = rec["conv_cell"]
    frac = np.asarray(rec["conv_frac"]) % 1.0
    num = np.asarray(rec["conv_num"])
    ds = conv_dataset(rec, tol)
    if ds is None:
        v.append(("no_dataset", "independent symmetry search failed on the returned cell"))
        return v, False
    R, T = np.array(ds.rotations), np.array(ds.translations)
    ident = np.allclose(ds.transformation_matrix, np.eye(3), atol=1e-6) and np.abs(sym.fdiff(ds.origin_shift, 0)).max() < 1e-6
    for w in rec["sets"]:
        ii = w["indices"]
        if w["mult"] != len(ii):
            v.append(("multiplicity", "set %s/%s: multiplicity %r != size %d" % (w["letter"], w["element"], w["mult"], len(ii))))
            break
        if any(num[i] != w["Z"] or chemical_symbols[num[i]] != w["element"] for i in ii):
            v.append(("element", "set %s/%s contains an atom of another element" % (w["letter"], w["element"])))
            break
        if any(rec["conv_letters"][i] != w["letter"] for i in ii):
            v.append(("letter_consistency", "set letter %s differs from the per-atom letters %s" % (w["letter"], sorted({rec['conv_letters'][i] for i in ii}))))
            break
        if len({rec["conv_equiv"][i] for i in ii}) != 1:
            v.append(("equiv_consistency", "set %s/%s spans several equivalence classes" % (w["letter"], w["element"])))
            break
        # orbit of the first atom under the independently determined operations == the set
        img = (np.einsum("nij,j->ni", R, frac[ii[0]]) + T) % 1.0
        hit = set()
        ok = True
        for q in img:
            d = sym.fdiff(frac, q[None, :]) @ cell
            dist = np.sqrt((d**2).sum(1))
            dist[num != w["Z"]] = np.inf
            j = int(np.argmin(dist))
            if dist[j] > 10 * tol:
                ok = False
                break
            hit.add(j)
        if not ok or hit != set(ii):
            v.append(("orbit", "set %s/%s (%d atoms) is not the orbit of its first atom under the space-group operations of the returned cell (orbit reaches %d atoms)" % (w["letter"], w["element"], len(ii), len(hit))))
            break
        # letters
        if ident:
            spl = {ds.wyckoffs[i] for i in ii}
            if spl != {w["letter"]}:
                v.append(("letter_spglib", "set reported with letter %s, independent assignment on the returned structure gives %s" % (w["letter"], sorted(spl))))
                break
    if not v:
        # independent of spglib's origin choice: the returned cell must be in the standard setting
        # (Hall-database operations are symmetries) and each atom must lie on the tabulated position of its letter
        Rh, Th = sym.ops(rec["sg"])
        std = True
        for w in rec["sets"]:
            # Hall-database orbit of the set's first atom == the set (for every set => the cell is invariant)
            img = (np.einsum("nij,j->ni", Rh, frac[w["indices"][0]]) + Th) % 1.0
            d = sym.fdiff(img[:, None, :], frac[None, :, :]) @ cell
            D = np.sqrt((d**2).sum(-1))
            D[:, num != w["Z"]] = np.inf
            j = D.argmin(1)
            if D[np.arange(len(img)), j].max() > 10 * tol or set(j.tolist()) != set(w["indices"]):
                std = False
                break
        if not std:
            v.append(("not_standard_setting", "the returned conventional cell is not invariant under the standard-setting operations of group %d" % rec["sg"]))
        else:
            for w in rec["sets"]:
                got = independent_letter(rec["sg"], frac[w["indices"][0]])
                if len(got) == 1 and got[0] != w["letter"]:
                    v.append(("letter_position", "set reported with letter %s but its atoms sit on Wyckoff position %s of the standard setting" % (w["letter"], got[0])))
                    break
    return v, ident


def oracle_c08(rec, tol=TOL):
    from matid.data.symmetry_data import WYCKOFF_SETS
    from mc.props.c14 import parse_expr

    v = []
    if "psets_exc" in rec:
        return [("exception", "get_wyckoff_sets_conventional(return_parameters=True) raised %s" % rec["psets_exc"])]
    cell = rec["conv_cell"]
    frac = np.asarray(rec["conv_frac"])
    anyvar = False
    for w in rec["psets"]:
        rep = w["rep"]
        coefs = [parse_expr(e) for e in rep]
        free = {"xyz"[i] for c, _ in coefs for i in range(3) if c[i] != 0}
        anyvar = anyvar or bool(free)
        got = {k for k in "xyz" if w[k] is not None}
        if got != free:
            v.append(("variables", "set %s/%s: parameters reported for %s, the representative %s has %s" % (w["letter"], w["Z"], sorted(got), rep, sorted(free))))
            break
        vals = np.array([w[k] if w[k] is not None else 0.0 for k in "xyz"], float)
        if any(w[k] is not None and not (0 <= w[k] < 1) for k in "xyz"):
            v.append(("range", "set %s/%s: parameter outside [0,1): %s" % (w["letter"], w["Z"], {k: w[k] for k in "xyz"})))
            break
        p = np.array([c @ vals + k0 for c, k0 in coefs])
        d = sym.fdiff(frac[w["indices"]], p[None, :]) @ cell
        if np.sqrt((d**2).sum(1)).min() > tol:
            v.append(("regenerate", "set %s/%s: substituting %s into %s gives a point %.4f A away from every atom of the set" % (w["letter"], w["Z"], {k: w[k] for k in "xyz"}, rep, np.sqrt((d**2).sum(1)).min())))
            break
    if not v and rec["has_free"] != anyvar:
        v.append(("flag", "has_free_wyckoff_parameters=%r but %s occupied set carries a parameter" % (rec["has_free"], "some" if anyvar else "no")))
    return v


CENTRING_MULT = {"P": 1, "A": 2, "B": 2, "C": 2, "I": 2, "R": 3, "F": 4}


def oracle_c12(rec, sg_ref, tol=TOL):
    from collections import Counter

    v = []
    for name in ("orig", "prim", "conv"):
        num = rec[name + "_num"]
        if len(rec[name + "_letters"]) != len(num) or len(rec[name + "_equiv"]) != len(num):
            v.append(("one_per_atom", "%s description: letters/equivalence classes do not have one entry per atom" % name))
            return v
        byclass = {}
        for z, l, e in zip(num, rec[name + "_letters"], rec[name + "_equiv"]):
            byclass.setdefault(e, set()).add((z, l))
        if any(len(x) != 1 for x in byclass.values()):
            v.append(("class_consistency", "%s description: equivalent atoms do not share element and letter" % name))
            return v
    c = {name: Counter(zip(rec[name + "_letters"], rec[name + "_num"])) for name in ("orig", "prim", "conv")}
    n = {name: len(rec[name + "_num"]) for name in ("orig", "prim", "conv")}
    for a, b in (("orig", "conv"), ("prim", "conv")):
        if set(c[a]) != set(c[b]) or any(c[a][k] * n[b] != c[b][k] * n[a] for k in c[a]):
            v.append(("count_ratio", "(letter, element) counts of the %s and %s descriptions are not in the ratio of their atom counts: %s vs %s" % (a, b, dict(c[a]), dict(c[b]))))
            return v
    mult = CENTRING_MULT[rec["short"][0]]
    vc, vp = abs(np.linalg.det(rec["conv_cell"])), abs(np.linalg.det(rec["prim_cell"]))
    if n["conv"] != mult * n["prim"] or abs(vc - mult * vp) > 1e-6 * vc:
        v.append(("centring_ratio", "primitive system has %d atoms / volume %.4f, conventional %d / %.4f, centring %s (x%d)" % (n["prim"], vp, n["conv"], vc, rec["short"][0], mult)))
        return v
    cellp = (rec["prim_cell"], np.asarray(rec["prim_frac"]) % 1.0, rec["prim_num"])
    fp = spglib.find_primitive(cellp, symprec=tol)
    if fp is None or len(fp[2]) != n["prim"]:
        v.append(("not_primitive", "the primitive system is not primitive (%s atoms after reduction)" % (None if fp is None else len(fp[2]))))
    dsp = spglib.get_symmetry_dataset(cellp, symprec=tol)
    if dsp is None or dsp.number != sg_ref:
        v.append(("prim_sg", "primitive system has space group %s, input %d" % (None if dsp is None else dsp.number, sg_ref)))
    if abs(vp / n["prim"] - rec["vol_in"] / rec["n_in"]) > 1e-6 * vp / n["prim"]:
        v.append(("volume_per_atom", "volume per atom of the primitive system %.6f differs from the input %.6f" % (vp / n["prim"], rec["vol_in"] / rec["n_in"])))
    return v


def oracle_c15(rec):
    want = sym.is_sohncke(rec["sg"])
    if rec["chiral"] != want:
        return [("flag", "get_is_chiral()=%r for detected space group %d, which is %sa Sohncke group" % (rec["chiral"], rec["sg"], "" if want else "not "))]
    return []
