"""Finite structure families shared by several properties (DESIGN.md §3.D).
Every family is an explicit, completely enumerable list; nothing is drawn at random."""
import itertools

import numpy as np
from ase import Atoms


def lattice_gas(shape=(2, 2, 2), max_atoms=None, min_atoms=1):
    """All assignments of {vacant, X, Y} to the sites of an sc grid of the given
    shape, as (sites, colours) with colours in {0,1}. Ordered by atom count
    (simplest first)."""
    sites = list(itertools.product(*[range(s) for s in shape]))
    n = len(sites)
    hi = n if max_atoms is None else min(n, max_atoms)
    for k in range(min_atoms, hi + 1):
        for occ in itertools.combinations(range(n), k):
            for col in itertools.product((0, 1), repeat=k):
                yield [sites[i] for i in occ], list(col)


def gas_atoms(sites, colours, species, spacing, shape, pbc, cell_kind="cubic", offset=None, vac=6.0):
    """Atoms object for one lattice-gas configuration. The cell is the grid
    supercell along periodic axes and grid + vacuum along non-periodic axes."""
    shape = np.array(shape, float)
    L = shape * spacing
    cell = np.diag([L[k] if pbc[k] else L[k] + vac for k in range(3)])
    pos = np.array(sites, float) * spacing
    if offset is not None:
        pos = pos + offset
    if cell_kind == "skew":
        S = np.array([[1, 0, 0], [0.25, 1, 0], [0.15, 0.1, 1]])
        pos = pos @ S
        cell = cell @ S
    elif cell_kind == "none":
        cell = np.zeros((3, 3))
    Z = [species[c] for c in colours]
    return Atoms(numbers=Z, positions=pos, cell=cell, pbc=pbc if cell_kind != "none" else False)


def atoms_case(at):
    """JSON-able exact description of an Atoms object (for replay files)."""
    return {
        "numbers": [int(z) for z in at.get_atomic_numbers()],
        "positions": at.get_positions().tolist(),
        "cell": np.asarray(at.get_cell()).tolist(),
        "pbc": [bool(b) for b in at.get_pbc()],
    }


def atoms_from_case(c):
    return Atoms(numbers=c["numbers"], positions=c["positions"], cell=c["cell"], pbc=c["pbc"])


def snapshot(at):
    """Bytes of everything a caller can observe on an Atoms object."""
    return (
        at.get_positions().tobytes(),
        np.asarray(at.get_cell()).tobytes(),
        at.get_pbc().tobytes(),
        at.get_atomic_numbers().tobytes(),
    )
