"""Finite structure families shared by several properties (DESIGN.md §3.D).
Every family is an explicit, completely enumerable list; nothing is drawn at random."""
import itertools

import numpy as np
from ase import Atoms


def lattice_gas(shape=(2, 2, 2), max_atoms=None, min_atoms=1):
    """All assignments of {vacant, X, Y} to the sites of an sc grid of the given
    shape, as (sites, colours) with colours in {0,1}. Ordered by atom count
    (simplest first)."""
    sites = list(itertools.product(*[range(s) for s in shape]))
    n = len(sites)
    hi = n if max_atoms is None else min(n, max_atoms)
    for k in range(min_atoms, hi + 1):
        for occ in itertools.combinations(range(n), k):
            for col in itertools.product((0, 1), repeat=k):
                yield [sites[i] for i in occ], list(col)


def gas_atoms(sites, colours, species, spacing, shape, pbc, cell_kind="cubic", offset=None, vac=6.0):
    """Atoms object for one lattice-gas configuration. The cell is the grid
    supercell along periodic axes and grid + vacuum along non-periodic axes."""
    shape = np.array(shape, float)
    L = shape * spacing
    cell = np.diag([L[k] if pbc[k] else L[k] + vac for k in range(3)])
    pos = np.array(sites, float) * spacing
    if offset is not None:
        pos = pos + offset
    if cell_kind == "skew":
        S = np.array([[1, 0, 0], [0.25, 1, 0], [0.15, 0.1, 1]])
        pos = pos @ S
        cell = cell @ S
    elif cell_kind == "none":
        cell = np.zeros((3, 3))
    Z = [species[c] for c in colours]
    return Atoms(numbers=Z, positions=pos, cell=cell, pbc=pbc if cell_kind != "none" else False)


def atoms_case(at):
    """JSON-able exact description of an Atoms object (for replay files)."""
    return {
        "numbers": [int(z) for z in at.get_atomic_numbers()],
        "positions": at.get_positions().tolist(),
        "cell": np.asarray(at.get_cell()).tolist(),
        "pbc": [bool(b) for b in at.get_pbc()],
    }


def atoms_from_case(c):
    return Atoms(numbers=c["numbers"], positions=c["positions"], cell=c["cell"], pbc=c["pbc"])


def snapshot(at):
    """Bytes of everything a caller can observe on an Atoms object."""
    return (
        at.get_positions().tobytes(),
        np.asarray(at.get_cell()).tobytes(),
        at.get_pbc().tobytes(),
        at.get_atomic_numbers().tobytes(),
    )


# ---------------------------------------------------------------- F2: deviation-bounded defective crystals
def f2_bases():
    """Base structures (name, Atoms, adatom sites)."""
    from ase.build import bulk, fcc100, graphene, fcc111
    from ase import Atoms as A

    out = []
    b = bulk("Cu", "fcc", a=3.6, cubic=True).repeat((2, 2, 2))
    out.append(("fcc222", b, []))
    s = fcc100("Cu", size=(3, 3, 3), a=3.6, vacuum=6.0)
    s.set_pbc([True, True, False])
    top = s.positions[:, 2].max()
    ads = [s.positions[np.argmax(s.positions[:, 2])] + [0, 0, 1.9], np.array([s.cell[0, 0] / 6 * 1, s.cell[1, 1] / 6 * 1, top + 1.5])]
    out.append(("fcc100slab.TTF", s, ads))
    s2 = s.copy()
    s2.set_pbc(True)
    out.append(("fcc100slab.TTT", s2, ads))
    g = graphene(formula="C2", a=2.46, size=(3, 3, 1), vacuum=6.0)
    g.set_pbc([True, True, False])
    out.append(("graphene33", g, [g.positions[0] + [0, 0, 1.5]]))
    sc = bulk("Po", "sc", a=3.0).repeat((3, 3, 2))
    sc.set_pbc(False)
    sc.center(vacuum=5.0)
    out.append(("sc332.finite", sc, [sc.positions[np.argmax(sc.positions[:, 2])] + [0, 0, 3.0]]))
    rs = bulk("NaCl", "rocksalt", a=5.64, cubic=True).repeat((2, 2, 1))
    out.append(("rocksalt221", rs, []))
    return out


def stack_base():
    """Two commensurate fcc(100) slabs of different elements (3+3 layers, 3x3)."""
    from ase.build import fcc100

    a = 3.9
    lower = fcc100("Ag", size=(3, 3, 3), a=a, vacuum=0.0)
    upper = fcc100("Pd", size=(3, 3, 3), a=a, vacuum=0.0)
    dz = a / 2
    upper.positions[:, 2] += lower.positions[:, 2].max() + dz - upper.positions[:, 2].min()
    # keep the fcc stacking registry across the interface
    upper.positions[:, :2] += (lower.positions[9, :2] - lower.positions[0, :2]) if False else 0
    st = lower + upper
    st.center(vacuum=6.0, axis=2)
    st.set_pbc([True, True, False])
    return st


def deviations(base, ads, k_subst=47, kinds=("vac", "sub", "ads", "disp")):
    """All single deviations of a base structure: (label, Atoms)."""
    n = len(base)
    out = []
    if "vac" in kinds:
        for i in range(n):
            a = base.copy()
            del a[i]
            out.append(("vac%d" % i, a))
    if "sub" in kinds:
        for i in range(n):
            a = base.copy()
            z = a.get_atomic_numbers()
            z[i] = k_subst
            a.set_atomic_numbers(z)
            out.append(("sub%d" % i, a))
    if "ads" in kinds:
        from ase import Atom

        for j, p in enumerate(ads):
            a = base.copy()
            a.append(Atom("O", position=p))
            out.append(("ads%d" % j, a))
    if "disp" in kinds:
        for i in range(n):
            for ax in range(3):
                for sg in (0.3, -0.3):
                    a = base.copy()
                    a.positions[i, ax] += sg
                    out.append(("disp%d%s%s" % (i, "xyz"[ax], "+" if sg > 0 else "-"), a))
    return out


def molecules():
    """F3: molecules in a box under several pbc masks."""
    from ase.build import molecule

    out = []
    for name in ("H2O", "CO2", "CH4", "C6H6"):
        for box in (8.0, 12.0):
            for pbc in ((True, True, True), (True, False, True), (False, False, False)):
                m = molecule(name)
                m.set_cell(np.eye(3) * box)
                m.center()
                m.set_pbc(pbc)
                out.append(("%s.box%g.%s" % (name, box, "".join("T" if b else "F" for b in pbc)), m))
    return out


def unit_cells():
    """Primitive / conventional unit cells given as they are (1-8 atoms, fully periodic): layered and ordinary bulk crystals."""
    from ase import Atoms as A
    from ase.build import bulk, mx2

    out = []
    a, c = 2.46, 6.70
    hexcell = [[a, 0, 0], [-a / 2, a * np.sqrt(3) / 2, 0], [0, 0, c]]
    out.append(("graphite.AB", A("C4", scaled_positions=[[0, 0, 0], [1 / 3, 2 / 3, 0], [0, 0, 0.5], [2 / 3, 1 / 3, 0.5]], cell=hexcell, pbc=True)))
    aa = [[a, 0, 0], [-a / 2, a * np.sqrt(3) / 2, 0], [0, 0, 3.35]]
    out.append(("graphite.AA", A("C2", scaled_positions=[[0, 0, 0], [1 / 3, 2 / 3, 0]], cell=aa, pbc=True)))
    out.append(("hBN.AA", A("BN", scaled_positions=[[0, 0, 0], [1 / 3, 2 / 3, 0]], cell=[[2.5, 0, 0], [-1.25, 2.5 * np.sqrt(3) / 2, 0], [0, 0, 3.33]], pbc=True)))
    m = mx2("MoS2", kind="2H", a=3.18, thickness=3.19, vacuum=None)
    cc = np.array(m.get_cell())
    cc[2] = [0, 0, 6.15]
    m.set_cell(cc)
    m.set_pbc(True)
    out.append(("MoS2.AA", m))
    for sym, kw in (("Cu", {}), ("Mg", {}), ("Si", {}), ("Fe", {})):
        out.append((sym + ".prim", bulk(sym, **kw)))
    out.append(("NaCl.prim", bulk("NaCl", "rocksalt", a=5.64)))
    out.append(("Cu.cubic", bulk("Cu", cubic=True)))
    return out
