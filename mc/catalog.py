"""Material catalogue (DESIGN.md §3.C): elemental reference crystals, binary/ternary
prototypes and monolayers, with the independent precondition filter used by
C02/C03/C04/C18."""
import functools
import itertools

import numpy as np
from ase import Atoms
from ase.data import atomic_numbers, covalent_radii, reference_states

MAX_CELL_SIZE = 6.0
BOND_THRESHOLD = 0.65
OVERLAP_THRESHOLD = -0.6
MARGIN = 0.1


def elements():
    out = []
    for z in range(1, 104):
        rs = reference_states[z]
        if rs and rs.get("symmetry") in ("fcc", "bcc", "hcp", "diamond", "sc"):
            from ase.data import chemical_symbols
            from ase.build import bulk

            try:
                bulk(chemical_symbols[z])
            except Exception:
                continue  # the reference table has no complete data for this element
            out.append((chemical_symbols[z], rs["symmetry"]))
    return out


def _crystal(symbols, basis, sg, cellpar):
    from ase.spacegroup import crystal

    return crystal(symbols, basis=basis, spacegroup=sg, cellpar=cellpar)


@functools.lru_cache(maxsize=None)
def compounds():
    from ase.build import bulk

    out = {}
    out["NaCl"] = ("rocksalt", bulk("NaCl", "rocksalt", a=5.64, cubic=True))
    out["MgO"] = ("rocksalt", bulk("MgO", "rocksalt", a=4.21, cubic=True))
    out["ZnS"] = ("zincblende", bulk("ZnS", "zincblende", a=5.41, cubic=True))
    out["GaAs"] = ("zincblende", bulk("GaAs", "zincblende", a=5.65, cubic=True))
    out["CsCl"] = ("cesiumchloride", bulk("CsCl", "cesiumchloride", a=4.12, cubic=True))
    out["NiAl"] = ("cesiumchloride", bulk("NiAl", "cesiumchloride", a=2.88, cubic=True))
    out["CaF2"] = ("fluorite", bulk("CaF2", "fluorite", a=5.46, cubic=True))
    out["Li2O"] = ("antifluorite", bulk("OLi2", "fluorite", a=4.62, cubic=True))
    out["ZnO"] = ("wurtzite", bulk("ZnO", "wurtzite", a=3.25, c=5.21))
    out["SrTiO3"] = ("perovskite", _crystal(["Sr", "Ti", "O"], [(0, 0, 0), (0.5, 0.5, 0.5), (0.5, 0.5, 0)], 221, [3.905, 3.905, 3.905, 90, 90, 90]))
    out["TiO2"] = ("rutile", _crystal(["Ti", "O"], [(0, 0, 0), (0.3053, 0.3053, 0)], 136, [4.594, 4.594, 2.959, 90, 90, 90]))
    return out


@functools.lru_cache(maxsize=None)
def conventional(name):
    """Conventional (cubic where applicable) unit cell of a catalogue material."""
    from ase.build import bulk

    if name in compounds():
        return compounds()[name][1].copy(), compounds()[name][0]
    sym = reference_states[atomic_numbers[name]]["symmetry"]
    if sym in ("fcc", "bcc", "diamond", "sc"):
        return bulk(name, cubic=True), sym
    return bulk(name), sym  # hcp: the primitive hexagonal cell


def monolayers():
    from ase.build import graphene, mx2

    out = {}
    out["graphene"] = graphene(formula="C2", a=2.46, vacuum=None)
    out["hBN"] = graphene(formula="BN", a=2.50, vacuum=None)
    out["MoS2-2H"] = mx2("MoS2", kind="2H", a=3.18, thickness=3.19, vacuum=None)
    out["MoS2-1T"] = mx2("MoS2", kind="1T", a=3.18, thickness=3.19, vacuum=None)
    out["WS2-2H"] = mx2("WS2", kind="2H", a=3.18, thickness=3.14, vacuum=None)
    out["WSe2-2H"] = mx2("WSe2", kind="2H", a=3.32, thickness=3.36, vacuum=None)
    out["MoTe2-2H"] = mx2("MoTe2", kind="2H", a=3.55, thickness=3.61, vacuum=None)
    return out


# ---------------------------------------------------------------- independent precondition
def nn_margins(unit, radii=covalent_radii):
    """For every atom of the (3D periodic) unit cell: nearest-neighbour distance minus the two radii."""
    sup = unit.repeat((3, 3, 3))
    n = len(unit)
    P = sup.get_positions()
    Z = sup.get_atomic_numbers()
    # atoms of the central copy: ase.repeat puts copy (i,j,k) at index ((i*3+j)*3+k)*n
    c0 = ((1 * 3 + 1) * 3 + 1) * n
    out = []
    for i in range(c0, c0 + n):
        d = np.linalg.norm(P - P[i], axis=1)
        d[i] = np.inf
        gap = d - radii[Z[i]] - radii[Z]
        # (gap to the nearest neighbour, smallest gap to any atom = strongest overlap)
        out.append((gap[int(np.argmin(d))], gap.min()))
    return np.array(out)


@functools.lru_cache(maxsize=None)
def precondition(name):
    """None if the material passes, else the reason it is outside the property's family."""
    import spglib

    unit, kind = conventional(name)
    m = nn_margins(unit)
    if m[:, 0].max() > BOND_THRESHOLD - MARGIN:
        return "unbonded (nearest-neighbour gap %.2f > %.2f)" % (m[:, 0].max(), BOND_THRESHOLD - MARGIN)
    if m[:, 1].min() < OVERLAP_THRESHOLD + MARGIN:
        return "overlapping (smallest pair gap %.2f < %.2f)" % (m[:, 1].min(), OVERLAP_THRESHOLD + MARGIN)
    prim = spglib.standardize_cell((np.array(unit.get_cell()), unit.get_scaled_positions(), unit.get_atomic_numbers()), to_primitive=True, symprec=1e-3)
    if len(prim[2]) > 6:
        return "more than six atoms in the primitive cell"
    lat = np.array(spglib.niggli_reduce(prim[0]))
    if np.linalg.norm(lat, axis=1).max() >= MAX_CELL_SIZE - 0.05:
        return "primitive cell vector %.2f >= max_cell_size" % np.linalg.norm(lat, axis=1).max()
    return None


def heights(cell):
    V = abs(np.linalg.det(cell))
    return np.array([V / np.linalg.norm(np.cross(cell[(i + 1) % 3], cell[(i + 2) % 3])) for i in range(3)])


def bulk_supercell(name, min_height=2 * MAX_CELL_SIZE + 0.5):
    unit, kind = conventional(name)
    h = heights(np.array(unit.get_cell()))
    rep = [int(np.ceil(min_height / x)) for x in h]
    return unit.repeat(rep)


def facets(kind):
    if kind in ("hcp", "wurtzite"):
        return [(0, 0, 1)]
    if kind == "rutile":
        return [(0, 0, 1), (1, 0, 0), (1, 1, 0)]
    return [(1, 0, 0), (1, 1, 0), (1, 1, 1)]


def slab(name, miller, layers, pbc_z, vacuum=7.0, min_height=2 * MAX_CELL_SIZE + 0.5):
    """Slab of `layers` surface-cell repeats, laterally repeated until both in-plane heights exceed min_height."""
    from ase.build import surface

    unit, kind = conventional(name)
    s = surface(unit, miller, layers, vacuum=vacuum)
    cell = np.array(s.get_cell())
    # in-plane heights of the 2D cell
    a, b = cell[0], cell[1]
    nrm = np.cross(a, b)
    nrm /= np.linalg.norm(nrm)
    ha = np.linalg.norm(np.cross(a, b)) / np.linalg.norm(b)
    hb = np.linalg.norm(np.cross(a, b)) / np.linalg.norm(a)
    rep = (int(np.ceil(min_height / ha)), int(np.ceil(min_height / hb)), 1)
    s = s.repeat(rep)
    s.set_pbc([True, True, bool(pbc_z)])
    return s


def atomic_layers(s, tol=0.3):
    z = np.sort(s.get_positions() @ (np.cross(s.cell[0], s.cell[1]) / np.linalg.norm(np.cross(s.cell[0], s.cell[1]))))
    return 1 + int((np.diff(z) > tol).sum())


def noise_field(n, row, amplitude):
    """Deterministic unit-vector field (no random draws): one of four vetted rows."""
    i = np.arange(n, dtype=float)
    ph = [(0.7548, 0.5698, 0.3247), (0.6180, 0.4142, 0.7320), (0.2360, 0.8284, 0.4495), (0.9021, 0.1357, 0.6543)][row % 4]
    v = np.stack([np.sin(2 * np.pi * (i * ph[0] + 0.1 * row)), np.sin(2 * np.pi * (i * ph[1] + 0.37)), np.cos(2 * np.pi * (i * ph[2] + 0.2 * row))], axis=1)
    v /= np.linalg.norm(v, axis=1)[:, None]
    return v * amplitude
