"""From-source replacement for the compiled `matid.ext` module.

The image has no pybind11 headers, so `matid/ext/ext.cpp` cannot be rebuilt.
This module compiles the *unmodified* `geometry.cpp` and `celllist.cpp` of the
/repo working tree against a tiny stand-in for `pybind11::array_t`
(mc/cxx/pybind11), adds a C ABI (mc/cxx/capi.cpp) and exposes the same Python
surface as `matid.ext` through ctypes.  `install()` swaps it into
`sys.modules["matid.ext"]` so that everything in matid that goes through
`matid.ext.*` runs the code of the working tree.
"""
import ctypes
import hashlib
import os
import subprocess
import sys
import types

import numpy as np

HERE = os.path.dirname(os.path.abspath(__file__))
VERIF = os.path.dirname(HERE)
REPO = os.environ.get("MATID_REPO", "/repo")
BUILD = os.path.join(VERIF, "build", "cxx")
CXXFLAGS = ["-std=c++11", "-O2", "-fPIC", "-shared"]
SOURCES = ["geometry.cpp", "celllist.cpp"]
HEADERS = ["geometry.h", "celllist.h"]


def _digest(extra=()):
    h = hashlib.sha256()
    for f in SOURCES + HEADERS:
        with open(os.path.join(REPO, "matid", "ext", f), "rb") as fh:
            h.update(fh.read())
    for f in ("capi.cpp", "pybind11/numpy.h", "pybind11/pybind11.h"):
        with open(os.path.join(HERE, "cxx", f), "rb") as fh:
            h.update(fh.read())
    h.update(" ".join(CXXFLAGS + list(extra)).encode())
    return h.hexdigest()[:20]


def build(extra_flags=()):
    """Compiles the working-tree core; returns the path of the shared library."""
    d = os.path.join(BUILD, _digest(extra_flags))
    lib = os.path.join(d, "libmatidext.so")
    if os.path.exists(lib):
        return lib
    os.makedirs(d, exist_ok=True)
    tmp = lib + ".%d.tmp" % os.getpid()
    ext = os.path.join(REPO, "matid", "ext")
    cmd = (
        ["g++"]
        + CXXFLAGS
        + list(extra_flags)
        + ["-I", os.path.join(HERE, "cxx"), "-I", ext]
        + [os.path.join(HERE, "cxx", "capi.cpp")]
        + [os.path.join(ext, s) for s in SOURCES]
        + ["-o", tmp]
    )
    r = subprocess.run(cmd, capture_output=True, text=True)
    if r.returncode != 0:
        raise RuntimeError("cannot compile matid/ext from the working tree:\n" + r.stderr[-4000:])
    os.replace(tmp, lib)
    return lib


_lib = None
_P = ctypes.c_void_p
_D = ctypes.POINTER(ctypes.c_double)
_I = ctypes.POINTER(ctypes.c_int)
_B = ctypes.POINTER(ctypes.c_bool)


def _load():
    global _lib
    if _lib is not None:
        return _lib
    lib = ctypes.CDLL(build())
    lib.mv_last_error.restype = ctypes.c_char_p
    lib.mv_displacement_tensor.argtypes = [_D, _D, _D, _D, ctypes.c_int, _D, _B, ctypes.c_double, ctypes.c_int, ctypes.c_int]
    lib.mv_displacement_tensor.restype = ctypes.c_int
    lib.mv_extend_system.argtypes = [_D, _I, ctypes.c_int, _D, _B, ctypes.c_double, _I]
    lib.mv_extend_system.restype = _P
    lib.mv_ext_size.argtypes = [_P]
    lib.mv_ext_size.restype = ctypes.c_long
    lib.mv_ext_copy.argtypes = [_P, _D, _I, _I, _D]
    lib.mv_ext_copy.restype = None
    lib.mv_ext_free.argtypes = [_P]
    lib.mv_ext_free.restype = None
    lib.mv_cell_list.argtypes = [_D, ctypes.c_int, _D, _B, ctypes.c_double, ctypes.c_double, _I]
    lib.mv_cell_list.restype = _P
    lib.mv_cell_list_raw.argtypes = [_D, _I, _D, ctypes.c_int, ctypes.c_double, _I]
    lib.mv_cell_list_raw.restype = _P
    lib.mv_cell_list_free.argtypes = [_P]
    lib.mv_cell_list_free.restype = None
    lib.mv_query_position.argtypes = [_P, ctypes.c_double, ctypes.c_double, ctypes.c_double]
    lib.mv_query_position.restype = _P
    lib.mv_query_index.argtypes = [_P, ctypes.c_int]
    lib.mv_query_index.restype = _P
    lib.mv_result_size.argtypes = [_P]
    lib.mv_result_size.restype = ctypes.c_long
    lib.mv_result_copy.argtypes = [_P, _I, _I, _D, _D, _D, _D]
    lib.mv_result_copy.restype = None
    lib.mv_result_free.argtypes = [_P]
    lib.mv_result_free.restype = None
    _lib = lib
    return lib


def _dp(a):
    return a.ctypes.data_as(_D)


def _ip(a):
    return a.ctypes.data_as(_I)


def _bp(a):
    return a.ctypes.data_as(_B)


def _raise(status):
    msg = _load().mv_last_error().decode()
    if status == 1:
        raise ValueError(msg)  # pybind11 maps std::invalid_argument to ValueError
    raise RuntimeError(msg)


def _f(a):
    return np.ascontiguousarray(np.asarray(a, dtype=np.float64))


def _b3(pbc):
    b = np.ascontiguousarray(np.asarray(pbc, dtype=np.bool_))
    if b.shape != (3,):
        raise TypeError("pbc must be three booleans")
    return b


class ExtendedSystem:
    def __init__(self):
        self.positions = None
        self.atomic_numbers = None
        self.indices = None
        self.factors = None


class CellListResult:
    def __init__(self):
        self.indices = []
        self.indices_original = []
        self.distances = []
        self.distances_squared = []
        self.displacements = []
        self.factors = []


def _result(handle):
    lib = _load()
    try:
        n = lib.mv_result_size(handle)
        ind = np.empty(n, dtype=np.int32)
        ori = np.empty(n, dtype=np.int32)
        dist = np.empty(n)
        dist2 = np.empty(n)
        disp = np.empty((n, 3))
        fac = np.empty((n, 3))
        if n:
            lib.mv_result_copy(handle, _ip(ind), _ip(ori), _dp(dist), _dp(dist2), _dp(disp), _dp(fac))
    finally:
        lib.mv_result_free(handle)
    r = CellListResult()
    # pybind11/stl.h converts std::vector -> list
    r.indices = ind.tolist()
    r.indices_original = ori.tolist()
    r.distances = dist.tolist()
    r.distances_squared = dist2.tolist()
    r.displacements = disp.tolist()
    r.factors = fac.tolist()
    return r


class CellList:
    def __init__(self, positions=None, indices=None, factors=None, cutoff=None, _handle=None):
        lib = _load()
        if _handle is None:
            pos = _f(positions)
            idx = np.ascontiguousarray(np.asarray(indices, dtype=np.int32))
            fac = _f(factors)
            status = ctypes.c_int(0)
            _handle = lib.mv_cell_list_raw(_dp(pos), _ip(idx), _dp(fac), pos.shape[0], float(cutoff), ctypes.byref(status))
            if not _handle:
                _raise(status.value)
        self._h = _handle
        self._free = lib.mv_cell_list_free

    def __del__(self):
        h, self._h = getattr(self, "_h", None), None
        if h:
            self._free(h)

    def get_neighbours_for_position(self, x, y, z):
        return _result(_load().mv_query_position(self._h, float(x), float(y), float(z)))

    def get_neighbours_for_index(self, i):
        return _result(_load().mv_query_index(self._h, int(i)))


def _guard(cutoff, pos, cel):
    """A NaN cutoff/extension makes the C++ copy count undefined behaviour (the
    compiled module crashes or exhausts memory).  The stand-in raises instead,
    so that a check sees an exception at the call site rather than losing its
    worker process."""
    if cutoff != cutoff or not np.isfinite(pos).all() or not np.isfinite(cel).all():
        raise FloatingPointError("non-finite cutoff/positions/cell passed to matid.ext (undefined behaviour in the C++ core)")


def extend_system(positions, atomic_numbers, cell, pbc, cutoff):
    lib = _load()
    pos = _f(positions).reshape(-1, 3)
    num = np.ascontiguousarray(np.asarray(atomic_numbers, dtype=np.int32))
    cel = _f(cell)
    pb = _b3(pbc)
    _guard(cutoff, pos, cel)
    status = ctypes.c_int(0)
    h = lib.mv_extend_system(_dp(pos), _ip(num), num.shape[0], _dp(cel), _bp(pb), float(cutoff), ctypes.byref(status))
    if not h:
        _raise(status.value)
    try:
        n = lib.mv_ext_size(h)
        out = ExtendedSystem()
        out.positions = np.empty((n, 3))
        out.atomic_numbers = np.empty(n, dtype=np.int32)
        out.indices = np.empty(n, dtype=np.int32)
        out.factors = np.empty((n, 3))
        lib.mv_ext_copy(h, _dp(out.positions), _ip(out.atomic_numbers), _ip(out.indices), _dp(out.factors))
    finally:
        lib.mv_ext_free(h)
    return out


def get_cell_list(positions, cell, pbc, extension, cutoff):
    lib = _load()
    pos = _f(positions).reshape(-1, 3)
    cel = _f(cell)
    pb = _b3(pbc)
    _guard(extension, pos, cel)
    _guard(cutoff, pos, cel)
    status = ctypes.c_int(0)
    h = lib.mv_cell_list(_dp(pos), pos.shape[0], _dp(cel), _bp(pb), float(extension), float(cutoff), ctypes.byref(status))
    if not h:
        _raise(status.value)
    return CellList(_handle=h)


def get_displacement_tensor(displacements, distances, factors, positions, cell, pbc, cutoff, return_factors, return_distances):
    lib = _load()
    for a in (displacements, distances, factors):
        if not (isinstance(a, np.ndarray) and a.dtype == np.float64 and a.flags.c_contiguous):
            raise TypeError("output arrays must be C-contiguous float64")
    pos = _f(positions).reshape(-1, 3)
    cel = _f(cell)
    pb = _b3(pbc)
    _guard(cutoff, pos, cel)
    st = lib.mv_displacement_tensor(
        _dp(displacements), _dp(distances), _dp(factors), _dp(pos), pos.shape[0], _dp(cel), _bp(pb),
        float(cutoff), int(bool(return_factors)), int(bool(return_distances)),
    )
    if st:
        _raise(st)


def module():
    m = types.ModuleType("matid.ext")
    m.__file__ = build()
    m.extend_system = extend_system
    m.get_cell_list = get_cell_list
    m.get_displacement_tensor = get_displacement_tensor
    m.CellList = CellList
    m.CellListResult = CellListResult
    m.ExtendedSystem = ExtendedSystem
    m.__verif_shim__ = True
    return m


_installed = None


def install():
    """Make `matid.ext` resolve to the from-source core. Must run before
    `matid` is imported."""
    global _installed
    if _installed is not None:
        return _installed
    if "matid" in sys.modules:
        raise RuntimeError("extshim.install() must precede the first import of matid")
    m = module()
    # matid/__init__.py imports every sub-package; `import matid.ext` inside
    # matid.geometry then finds this entry instead of loading the binary.
    sys.modules["matid.ext"] = m
    import matid

    matid.ext = m
    assert sys.modules["matid.ext"] is m
    _installed = m
    return m


def load_binary():
    """The installed, compiled extension (what a user imports), loaded under a
    private name so both can coexist in one process."""
    import importlib.machinery
    import importlib.util
    import glob

    cands = glob.glob(os.path.join(REPO, "matid", "ext.*.so"))
    if not cands:
        return None
    import matid

    saved_mod = sys.modules.get("matid.ext")
    saved_attr = getattr(matid, "ext", None)
    loader = importlib.machinery.ExtensionFileLoader("matidbin.ext", cands[0])
    spec = importlib.util.spec_from_file_location("matidbin.ext", cands[0], loader=loader)
    mod = importlib.util.module_from_spec(spec)
    loader.exec_module(mod)
    # single-phase extension modules register themselves; undo any clobbering
    if saved_mod is not None:
        sys.modules["matid.ext"] = saved_mod
    if saved_attr is not None:
        matid.ext = saved_attr
    return mod
