"""C01 - SBC returns a well-formed, disjoint, connected set of clusters.

(A) seam: the real _merge_clusters -> _localize_clusters -> _clean_clusters pipeline on
    every synthetic input of a small alphabet (explicit-state enumeration);
(B) end to end: families F1/F2/F3 x parameter deviations x the scripted seed-choice tree
    (deviation bounded), plus the real seeded generator twice."""
import itertools

import numpy as np

from mc import families, geom, sbc_harness
from mc.engine import Result, short_hash
from mc.props import _sbcfam

PROPERTY = "C01"
NCHUNK = {"quick": 64, "thorough": 256}


def shards(tier, seed):
    from mc.props import c13

    out = [("e2e", ch, NCHUNK[tier]) for ch in range(NCHUNK[tier])] + [("hist", k) for k in range(len(c13.history_cases()))] + [("hashseed", hs) for hs in (1, 2)]
    for n in (2, 3, 4) if tier == "quick" else (2, 3, 4, 5):
        for ncl in (1, 2, 3):
            for mt in (0.0, 0.5, 1.0):
                if tier == "quick" and n == 4 and ncl == 2 and mt != 0.5:
                    continue
                for ck in range(n + 1):
                    out.append(("seam", n, ncl, mt, ck))
    return out


# ------------------------------------------------------------------ seam
LEVELS = {"b": 0.3, "n": 0.8, "f": 5.0}  # bonded (<= bond_threshold 0.65), near (< merge_radius 1), far


def seam_case(n, colours, cluster_sets, levels, merge_threshold):
    """Runs the real post-processing pipeline on one synthetic input."""
    from ase import Atoms
    from matid.clustering.sbc import SBC
    from matid.clustering.cluster import Cluster
    from matid.core.distances import Distances

    num = np.array([29 if c == 0 else 8 for c in colours])
    system = Atoms(numbers=num, positions=np.arange(3 * n, dtype=float).reshape(n, 3))
    D = np.full((n, n), -1.5)
    for (i, j), l in zip(itertools.combinations(range(n), 2), levels):
        D[i, j] = D[j, i] = LEVELS[l]
    dist = Distances(None, None, None, D.copy())
    clusters = [Cluster(sorted(cs), set(int(num[i]) for i in cs), None, system=system, distances=dist, radii=None, bond_threshold=0.65) for cs in cluster_sets]
    s = SBC()
    out = s._merge_clusters(system, clusters, merge_threshold, dist, 0.65)
    out = s._localize_clusters(system, out, 1, dist)
    out = s._clean_clusters(out, 0.65)
    v = []
    seen = set()
    union = set().union(*[set(cs) for cs in cluster_sets])
    for ci, c in enumerate(out):
        idx = [int(i) for i in c.indices]
        if not idx:
            v.append(("empty", "an empty cluster survived"))
            continue
        if len(set(idx)) != len(idx):
            v.append(("duplicate", "cluster lists an atom twice"))
        if seen & set(idx):
            v.append(("overlap", "clusters share atoms %s" % sorted(seen & set(idx))))
        seen |= set(idx)
        if not set(idx) <= union:
            v.append(("foreign", "output atoms %s were in no input cluster" % sorted(set(idx) - union)))
        if not set(int(num[i]) for i in idx) <= set(int(z) for z in c.species):
            v.append(("species", "cluster contains a species outside its species set"))
        comp, todo = {idx[0]}, [idx[0]]
        while todo:
            u = todo.pop()
            for w in idx:
                if w not in comp and D[u, w] <= 0.65:
                    comp.add(w)
                    todo.append(w)
        if comp != set(idx):
            v.append(("disconnected", "cluster %s is not one bonded component" % idx))
    return v, len(out)


def run_seam(shard, tier, seed, res):
    _, n, ncl, mt, ck = shard
    subsets = [c for k in range(1, n + 1) for c in itertools.combinations(range(n), k)]
    pairs = n * (n - 1) // 2
    lv = "bnf" if (n <= 3 or (tier != "quick" and n == 4 and ncl <= 2)) else "bf"
    if n >= 4 and ncl == 3 and tier == "quick":
        return
    if n == 5 and ncl >= 2:
        return  # n = 5 is explored with a single input cluster only (cleaning): the 2- and 3-cluster spaces are too large
    for colours in [tuple([0] * (n - ck) + [1] * ck)]:
        for cl in itertools.product(subsets, repeat=ncl):
            for levels in itertools.product(lv, repeat=pairs):
                res.counters["evaluations"] += 1
                res.counters["states"] += 1
                res.counters["transitions"] += 3
                res.counters["traces"] += 1
                try:
                    v, nout = seam_case(n, colours, cl, levels, mt)
                except Exception as e:
                    v, nout = [("exception", "post-processing pipeline raised %r" % (e,))], -1
                res.outcomes["seam out=%d" % nout] += 1
                if ncl > 1 and nout != ncl:
                    res.counters["nontrivial_distinct"] += 1
                if v:
                    case = {"kind": "seam", "n": n, "colours": list(colours), "clusters": [list(c) for c in cl], "levels": "".join(levels), "merge_threshold": mt}
                    res.violation("c01.seam." + v[0][0], {"case": short_hash(case)}, case, "seam input %s: %s" % (case, v[0][1]))
    res.sample({"kind": "seam", "n": n, "clusters": ncl, "merge_threshold": mt, "levels": lv})


# ------------------------------------------------------------------ determinism across processes
def hashseed_slice(tier, seed):
    """Fixed slice of structures for the separate-process differential (executed through mc.isolated)."""
    structs = _sbcfam.structure_list(tier, seed)
    pick = [s for s in structs if ":" not in s[0] or s[0].endswith("vac0") or s[0].endswith("sub1") or s[0].endswith("ads0")]
    out = {}
    from matid.clustering.sbc import SBC

    for label, atoms, _ in pick:
        if label.startswith("zero_cell") or label.startswith("gas"):
            continue
        try:
            out[label] = [[list(k[0]), list(k[1])] for k in _sbcfam.clusters_key(SBC().get_clusters(atoms.copy()))]
        except Exception as e:
            out[label] = "EXC:" + type(e).__name__
    return out


def run_hashseed(shard, tier, seed, res):
    """'deterministic function of (structure, parameters, seed)': the same calls in a fresh interpreter started with a
    different PYTHONHASHSEED (set/dict iteration orders of str keys change) must give the same clusters."""
    from mc import isolated

    here = hashseed_slice(tier, seed)
    there = isolated.call("mc.props.c01", "hashseed_slice", [tier, seed], env_extra={"PYTHONHASHSEED": str(shard[1])})
    for label in sorted(here):
        res.counters["states"] += 1
        res.counters["evaluations"] += 1
        res.counters["transitions"] += 1
        if here[label] != there.get(label):
            res.violation("c01.hashseed", {"label": label, "hashseed": shard[1]}, {"kind": "hashseed", "label": label, "hashseed": shard[1], "tier": tier, "seed": seed},
                          "%s: get_clusters(seed=7) in a process with PYTHONHASHSEED=%d gives different clusters than with PYTHONHASHSEED=0" % (label, shard[1]))
    res.nontrivial.add("hashseed:%d" % shard[1])
    res.sample({"kind": "hashseed", "hashseed": shard[1], "structures": len(here)})


# ------------------------------------------------------------------ end to end
def check_structure(label, atoms, hint, tier, seed, res=None, only_params=None, only_script=None):
    viol = []
    n = len(atoms)
    expect_error = label == "zero_cell_periodic"
    is_base = (":" not in label) or label.startswith("mol:")
    if only_params is not None:
        plist = [only_params]
    elif is_base or (hash(label) % 7 == 0 and tier != "quick"):
        plist = _sbcfam.PARAM_DEVS
    elif label.startswith("gas:"):
        gi = int(label.split(":")[1])
        plist = [{}] + ([_sbcfam.PARAM_DEVS[1 + gi % 11]] if gi % 3 == 0 else [])
    else:
        k = sum(ord(c) for c in label)
        plist = [{}] + ([_sbcfam.PARAM_DEVS[1 + k % 11]] if k % 4 == 0 else [])
    mic = None
    for pr in plist:
        params = _sbcfam.resolve_params(pr, atoms)
        snap = families.snapshot(atoms)
        first = "all" if (n <= 8 or (tier != "quick" and n <= 20)) else "classes"
        ranks = _sbcfam.first_ranks(hint, n)
        later = 1 if tier == "quick" else 2
        if tier == "quick" and pr:
            later = 0  # parameter deviations: first-choice classes only
        nrun = 0
        ref_default = None
        scripts = [(tuple(only_script), None, None)] if only_script is not None else sbc_harness.enumerate_scripts(
            atoms, params, first=first, later_dev=later, first_classes=ranks, max_runs=64 if tier == "quick" else 200,
            later_alts="three" if (tier == "quick" or n > 20) else "all",
            later_for_first=({0} | set(ranks[1:2]) if (tier == "quick" and n > 8) else None))
        gen = iter(scripts)
        while True:
            try:
                script, clusters, trace = next(gen)
            except StopIteration:
                break
            except ValueError as e:
                if not expect_error:
                    viol.append((pr, (), "exception", "get_clusters raised ValueError on a valid cell: %r" % (e,)))
                break
            except Exception as e:
                viol.append((pr, (), "exception", "get_clusters raised %r" % (e,)))
                break
            if script is None:
                if res is not None:
                    res.counters["caps_hit"] += 1
                break
            if clusters is None:  # replay of one script
                try:
                    clusters, trace = sbc_harness.run_scripted(atoms, list(script), **params)
                except Exception as e:
                    viol.append((pr, script, "exception", "get_clusters raised %r" % (e,)))
                    break
            nrun += 1
            if expect_error:
                viol.append((pr, script, "no_error", "a periodic zero-length cell vector did not raise ValueError"))
                break
            if mic is None:
                mic = geom.mic_table(atoms.get_positions(), np.array(atoms.get_cell()), tuple(bool(b) for b in atoms.get_pbc()))
            for kind, d in _sbcfam.oracle_c01(atoms, snap, clusters, params, mic):
                viol.append((pr, script, kind, d))
            if res is not None:
                res.counters["states"] += 1
                res.counters["evaluations"] += 1
                res.counters["transitions"] += len(trace)
                res.outcomes["ncl=%d depth=%d" % (len(clusters), len(trace))] += 1
                if not trace:
                    res.notes["interception_lost"] += 1
            if script == () or only_script is not None:
                # determinism: the same script again must give the same clusters
                again, _ = sbc_harness.run_scripted(atoms, list(script), **params)
                if _sbcfam.clusters_key(again) != _sbcfam.clusters_key(clusters):
                    viol.append((pr, script, "nondeterministic", "two runs with identical seed choices differ"))
                ref_default = clusters
        # the real seeded generator: twice with the default seed, once with another
        if only_script is None and not expect_error and (is_base or len(plist) > 1 or n <= 8):
            from matid.clustering.sbc import SBC

            try:
                a = SBC().get_clusters(atoms, **params)
                b = SBC().get_clusters(atoms, **params)
                c = SBC().get_clusters(atoms, seed=11, **params)
                if _sbcfam.clusters_key(a) != _sbcfam.clusters_key(b):
                    viol.append((pr, "rng", "nondeterministic", "two calls with the same seed differ"))
                for cl in (a, c):
                    for kind, d in _sbcfam.oracle_c01(atoms, snap, cl, params, mic):
                        viol.append((pr, "rng", kind, d))
                if res is not None:
                    res.counters["evaluations"] += 3
                    res.counters["states"] += 3
            except Exception as e:
                viol.append((pr, "rng", "exception", "get_clusters raised %r" % (e,)))
    return viol


def _pjson(pr):
    return {k: (v if not isinstance(v, np.ndarray) else "custom") for k, v in pr.items()}


def run_shard(shard, tier, seed):
    res = Result()
    if shard[0] == "seam":
        run_seam(shard, tier, seed, res)
        return res
    if shard[0] == "hashseed":
        run_hashseed(shard, tier, seed, res)
        return res
    if shard[0] == "hist":
        # determinism as a function of (structure, parameters, seed): one SBC instance reused across calls
        from mc.props import c13

        c13.history_shard(shard, tier, seed, res, tag="c01.history", with_dim=False)
        return res
    _, ch, nch = shard
    structs = _sbcfam.structure_list(tier, seed)
    for k in range(ch, len(structs), nch):
        label, atoms, hint = structs[k]
        res.counters["traces"] += 1
        viol = check_structure(label, atoms, hint, tier, seed, res)
        if ":" in label:
            res.nontrivial.add(label)
        if k % 211 == 0:
            res.sample({"label": label, "atoms": len(atoms), "pbc": atoms.get_pbc().tolist()})
        seen = set()
        for pr, script, kind, d in viol:
            key = (kind, str(_pjson(pr)))
            if key in seen:
                continue
            seen.add(key)
            case = {"kind": "e2e", "label": label, "atoms": families.atoms_case(atoms), "params": _pjson(pr), "script": list(script) if not isinstance(script, str) else script, "tier": tier, "seed": seed}
            res.violation("c01." + kind, {"label": label, "params": str(_pjson(pr)), "script": str(case["script"])}, case, "%s, params %s, seed choices %s: %s" % (label, _pjson(pr), case["script"], d))
    return res


def replay(case):
    out = []
    if case["kind"] == "hashseed":
        res = Result()
        run_hashseed(("hashseed", case["hashseed"]), case.get("tier", "quick"), case.get("seed", 0), res)
        return [v for v in res.violations if v["signature"]["label"] == case["label"]]
    if case["kind"] == "hist":
        from mc.props import c13

        res = Result()
        c13.history_shard(("hist", c13.history_cases().index(case["name"])), "thorough", 0, res, tag="c01.history", with_dim=False)
        return [v for v in res.violations if v["signature"]["step"] == case["step"]]
    if case["kind"] == "seam":
        try:
            v, _ = seam_case(case["n"], tuple(case["colours"]), [tuple(c) for c in case["clusters"]], case["levels"], case["merge_threshold"])
        except Exception as e:
            v = [("exception", repr(e))]
        c2 = {k: case[k] for k in ("kind", "n", "colours", "clusters", "levels", "merge_threshold")}
        for kind, d in v[:1]:
            out.append({"signature": {"check": "c01.seam." + kind, "case": short_hash(c2)}, "case": case, "reason": d})
        return out
    atoms = families.atoms_from_case(case["atoms"])
    script = case["script"]
    viol = check_structure(case["label"], atoms, None, case.get("tier", "quick"), case.get("seed", 0), None, only_params=case["params"], only_script=None if script == "rng" else script)
    for pr, sc, kind, d in viol:
        out.append({"signature": {"check": "c01." + kind, "label": case["label"], "params": str(_pjson(pr)), "script": str(case["script"])}, "case": case, "reason": d})
    return out


def describe(tier, seed):
    structs = _sbcfam.structure_list(tier, seed)
    fam = {}
    for l, _, _ in structs:
        fam[l.split(":")[0]] = fam.get(l.split(":")[0], 0) + 1
    return {
        "rule": "(A) seam: every synthetic input (n atoms, colour vector sorted, ordered list of <=3 clusters with arbitrary non-empty index sets, a 2- or 3-level distance matrix, merge_threshold in {0,0.5,1}) "
                "is pushed through the real _merge_clusters -> _localize_clusters -> _clean_clusters; (B) end to end: every structure of F1 (lattice gas), F2 (all single deviations of 6 base crystals + two-slab stack), "
                "F3 (molecules in a box) and degenerate cells x parameter deviations x the seed-choice tree (scripted chooser: first choice %s, <=%d later deviations) + the real generator with 2 seeds; (C) histories: sequences of get_clusters calls on ONE SBC instance (same Atoms object modified in place; A,B,A,B incl. pairs with equal atom counts) vs fresh instances; (D) a fixed slice of structures clustered in fresh interpreters started with PYTHONHASHSEED 1 and 2, compared with this process (PYTHONHASHSEED 0); "
                "states = executions of get_clusters / of the pipeline, transitions = seed choices made / pipeline stages" % ("all atoms for n<=8, else 3-6 class representatives" if tier == "quick" else "all atoms for n<=20", 1 if tier == "quick" else 2),
        "nontrivial_rule": "defective/perturbed structures (label with a deviation) and seam inputs whose number of clusters changed",
        "bounds": {"structures": len(structs), "by_family": fam, "param_deviations": len(_sbcfam.PARAM_DEVS) - 1, "seam_atoms": "2-4" if tier == "quick" else "2-4 with <=3 clusters, 5 with one cluster", "max_runs_per_structure": 64 if tier == "quick" else 200},
        "assumptions": ["connectivity is evaluated with brute-force minimum-image distances on the caller's input structure",
                        "parameter deviations are applied one at a time, to base structures and a fixed slice of the others",
                        "interception of numpy.random.default_rng inside matid.clustering.sbc; if lost the evidence counts 'interception_lost'"],
        "exhaustive": True,
    }
