"""C15 - see mc/symfam.py (oracle_c15) and mc/props/_famb.py (exploration)."""
from mc.props import _famb

PROPERTY = "C15"


def shards(tier, seed):
    return _famb.shards(PROPERTY, tier, seed)


def run_shard(shard, tier, seed):
    return _famb.run_shard(PROPERTY, shard, tier, seed)


def replay(case):
    return _famb.replay(PROPERTY, case)


def describe(tier, seed):
    return _famb.describe(PROPERTY, tier, seed)
