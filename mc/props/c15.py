"""C15 - see mc/symfam.py (oracle_c15), mc/props/_famb.py (root x presentation exploration) and
mc/symhist.py (call-history exploration on one live analyser)."""
from mc import symhist
from mc.engine import Result, short_hash
from mc.props import _famb

PROPERTY = "C15"
HIST_GETTERS = ["get_is_chiral", "get_space_group_number", "get_conventional_system", "get_material_id"]
HIST_LEN = {'quick': 3, 'thorough': 4}


def shards(tier, seed):
    return _famb.shards(PROPERTY, tier, seed) + [("hist", k) for k in range(len(symhist.system_sets(seed)))]


def run_shard(shard, tier, seed):
    if shard[0] != "hist":
        return _famb.run_shard(PROPERTY, shard, tier, seed)
    res = Result()
    systems = symhist.system_sets(seed)[shard[1]]
    viol = symhist.explore(systems, 0.01, HIST_LEN[tier], res, getters=HIST_GETTERS)
    res.counters["traces"] += 1
    res.nontrivial.add("hist:%d" % shard[1])
    res.sample({"kind": "history", "systems": [l for l, _ in systems], "length": HIST_LEN[tier]})
    seen = set()
    for seq, sysname, ev, d in viol:
        if (sysname, ev) in seen:
            continue
        seen.add((sysname, ev))
        case = {"kind": "hist", "set": shard[1], "seq": list(seq), "seed": seed}
        res.violation("c15.history", {"set": shard[1], "seq": "|".join(seq)}, case, d)
    return res


def replay(case):
    if case.get("kind") != "hist":
        return _famb.replay(PROPERTY, case)
    from matid.symmetry import SymmetryAnalyzer

    systems = symhist.system_sets(case.get("seed", 0))[case["set"]]
    an = SymmetryAnalyzer(systems[0][1].copy(), 0.01)
    cur, cache, out = 0, {}, []
    for i, ev in enumerate(case["seq"]):
        if ev.startswith("set:"):
            cur = int(ev[4:])
            an.set_system(systems[cur][1].copy())
            continue
        want = symhist.fresh_values(systems[cur][1], 0.01, cache)[ev]
        try:
            got = symhist.digest(symhist.call(an, ev))
        except Exception as e:
            got = ("EXC", type(e).__name__)
        if got != want:
            out.append({"signature": {"check": "c15.history", "set": case["set"], "seq": "|".join(case["seq"])}, "case": case,
                        "reason": "after %s, %s returns a different value than on a fresh analyser" % (case["seq"][:i], ev)})
            break
    return out


def describe(tier, seed):
    d = _famb.describe(PROPERTY, tier, seed)
    d["rule"] += " Plus history exploration: every sequence of length %d over the events %s + set_system(k) on one live analyser for %d pairs of representative crystals; each returned value is compared with a fresh analyser's." % (
        HIST_LEN[tier], HIST_GETTERS or "all 18 public getters", len(symhist.system_sets(seed)))
    d["bounds"]["history_length"] = HIST_LEN[tier]
    return d
