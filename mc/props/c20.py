"""C20 - cell and frame helpers preserve the physical structure.

Exhaustive over (cell, pbc mask, 1-3 atoms on a fractional grid extended to
[-1,2)^3, exact/offset) x (axis, min_size) for the minimised cell; identities
checked element-wise against numpy."""
import itertools

import numpy as np
from ase import Atoms

from mc import geom
from mc.engine import Result, short_hash

PROPERTY = "C20"
TOL = 1e-8
ZS = (1, 8, 29)  # different masses so that mass weighting matters
MIN_SIZES = (0.1, 1.0, 3.0)


def _cells(tier, seed):
    base = geom.base_cells()
    gr = geom.generic_rotations(seed, 2)
    out = []
    if tier == "quick":
        out.append(("cubic4", "I", base["cubic4"]))
        out.append(("tric", "g0", base["tric"] @ gr[0].T))
        out.append(("needle", "I", base["needle"]))
        out.append(("shear+2-1+1", "I", geom.shear_matrix(2, -1, 1) @ (np.eye(3) * 4.0)))
        out.append(("shear+1+0+0", "g0", (geom.shear_matrix(1, 0, 0) @ (np.eye(3) * 4.0)) @ gr[0].T))
        return out
    for name in base:
        c = base[name]
        out.append((name, "I", c))
        out.append((name, "g0", c @ gr[0].T))
    sh = [(1, 0, 0), (0, -1, 1), (2, -1, 1), (-2, 2, 1), (1, 1, -2)]
    for s in sh:
        c = geom.shear_matrix(*s) @ (np.eye(3) * 4.0)
        out.append(("shear%+d%+d%+d" % s, "I", c))
    if tier != "quick":
        out.append(("shear+2-1+1", "g1", (geom.shear_matrix(2, -1, 1) @ (np.eye(3) * 4.0)) @ gr[1].T))
    return out


def _possets(tier, seed):
    off = geom.GENERIC_OFFSETS[seed % 4]
    half = [np.array(p) for p in itertools.product((-1.0, -0.5, 0.0, 0.5, 1.0, 1.5), repeat=3)]
    f2 = geom.grid(2)
    coarse = [np.array(p) for p in itertools.product((-1.0, 0.5, 1.5), repeat=3)]
    sets = []
    for p in half:
        sets.append(("1", np.array([p])))
    for p0 in (f2[0], f2[7]) if tier == "quick" else f2:
        for p1 in half:
            if not np.array_equal(p0, p1):
                sets.append(("2", np.array([p0, p1])))
    trip = list(itertools.combinations(range(len(coarse)), 2))
    if tier == "quick":
        trip = trip[::4]
    for p0 in f2[:4] if tier == "quick" else f2:
        for a, b in trip:
            if np.array_equal(p0, coarse[a]) or np.array_equal(p0, coarse[b]):
                continue
            sets.append(("3", np.array([p0, coarse[a], coarse[b]])))
    out = []
    for fam, f in sets:
        out.append((fam, "exact", f))
        out.append((fam, "offset", f + off[None, :]))
    return out


def shards(tier, seed):
    return [(ci, pbc) for ci in range(len(_cells(tier, seed))) for pbc in geom.PBCS]


_cache = {}


def _setup(tier, seed):
    k = (tier, seed)
    if k not in _cache:
        _cache[k] = (_cells(tier, seed), _possets(tier, seed))
    return _cache[k]


def _frac(cell, pos):
    return np.linalg.solve(np.asarray(cell).T, np.asarray(pos).T).T


def check_case(pos, cell, pbc):
    """All C20 clauses on one structure; returns (violations, tags)."""
    import matid.geometry as g

    pos = np.asarray(pos, float)
    cell = np.asarray(cell, float)
    n = len(pos)
    pbc_a = np.array(pbc, bool)
    num = [ZS[i % 3] for i in range(n)]
    viol = []
    tags = []
    scale = 1 + np.abs(pos).max()

    # --- to_scaled / to_cartesian
    fr = g.to_scaled(cell.copy(), pos.copy())
    back = g.to_cartesian(cell.copy(), fr.copy())
    if np.abs(back - pos).max() > TOL * scale:
        viol.append(("roundtrip", "to_cartesian(to_scaled(x)) != x"))
    ref = _frac(cell, pos)
    if np.abs(fr - ref).max() > TOL * (1 + np.abs(ref).max()):
        viol.append(("to_scaled", "to_scaled differs from solving x = s.cell"))
    fr2 = g.to_scaled(cell.copy(), g.to_cartesian(cell.copy(), ref.copy()))
    if np.abs(fr2 - ref).max() > TOL * (1 + np.abs(ref).max()):
        viol.append(("roundtrip2", "to_scaled(to_cartesian(s)) != s"))
    frw = g.to_scaled(cell.copy(), pos.copy(), wrap=True, pbc=pbc_a)
    d = frw - fr
    if np.abs(d - np.round(d)).max() > 1e-9 or np.abs(d[:, ~pbc_a]).sum() != 0:
        viol.append(("wrap_integer", "to_scaled(wrap=True) changed positions by a non-integer or along a non-periodic axis"))
    # (x % 1.0 may round to exactly 1.0 for a tiny negative x: the closed interval is what the statement supports)
    if np.any(frw[:, pbc_a] < 0) or np.any(frw[:, pbc_a] > 1):
        viol.append(("wrap_range", "to_scaled(wrap=True) left a periodic coordinate outside [0,1]"))
    cw = g.to_cartesian(cell.copy(), ref.copy(), wrap=True, pbc=pbc_a)
    dw = _frac(cell, cw) - ref
    if np.abs(dw - np.round(dw)).max() > 1e-8 or np.abs(dw[:, ~pbc_a]).max(initial=0) > 1e-9:
        viol.append(("wrap_cart", "to_cartesian(wrap=True) moved atoms by something other than periodic lattice vectors"))
    if np.abs(d).max() > 0.5:
        tags.append("wrapped")

    # --- swap_basis
    for a, b in ((0, 1), (0, 2), (1, 2), (1, 1)):
        at = Atoms(numbers=num, positions=pos, cell=cell, pbc=pbc_a)
        g.swap_basis(at, a, b)
        c2 = np.asarray(at.get_cell())
        p2 = at.get_pbc()
        ok = np.array_equal(at.get_positions(), pos)
        perm = list(range(3))
        perm[a], perm[b] = perm[b], perm[a]
        ok = ok and np.array_equal(c2, cell[perm]) and np.array_equal(p2, pbc_a[perm])
        if not ok:
            viol.append(("swap_basis", "swap_basis(%d,%d) moved atoms or did not exchange the vectors/flags" % (a, b)))

    # --- complete_cell
    for length in (0.5, 7.0):
        c = np.asarray(g.complete_cell(cell[0].copy(), cell[1].copy(), length)).reshape(-1)
        if c.shape != (3,) or abs(np.linalg.norm(c) - length) > 1e-9 * (1 + length) or abs(c @ cell[0]) > 1e-8 * length * np.linalg.norm(cell[0]) or abs(c @ cell[1]) > 1e-8 * length * np.linalg.norm(cell[1]):
            viol.append(("complete_cell", "complete_cell length/orthogonality wrong for length %r" % length))

    # --- get_minimized_cell
    for axis in range(3):
        for ms in MIN_SIZES:
            at = Atoms(numbers=num, positions=pos, cell=cell, pbc=pbc_a)
            m = g.get_minimized_cell(at, axis, ms)
            mc = np.asarray(m.get_cell())
            mp = m.get_positions()
            extent = (ref[:, axis].max() - ref[:, axis].min()) * np.linalg.norm(cell[axis])
            want = max(extent, ms)
            if list(m.get_atomic_numbers()) != num or not np.array_equal(m.get_pbc(), pbc_a):
                viol.append(("min_atoms", "get_minimized_cell changed species/pbc"))
                continue
            if n > 1:
                dd = (mp[:, None, :] - mp[None, :, :]) - (pos[:, None, :] - pos[None, :, :])
                if np.abs(dd).max() > TOL * scale:
                    viol.append(("min_displacements", "get_minimized_cell(axis=%d,min=%r) changed mutual displacements" % (axis, ms)))
            others = [k for k in range(3) if k != axis]
            if np.abs(mc[others] - cell[others]).max() > 1e-12:
                viol.append(("min_other_vectors", "get_minimized_cell(axis=%d) changed another cell vector" % axis))
            la = np.linalg.norm(mc[axis])
            if abs(la - want) > TOL * (1 + want):
                viol.append(("min_length", "get_minimized_cell(axis=%d,min=%r): length %r, expected max(extent=%r,min)" % (axis, ms, la, extent)))
            elif abs(np.dot(mc[axis], cell[axis]) - la * np.linalg.norm(cell[axis])) > 1e-8 * la * np.linalg.norm(cell[axis]):
                viol.append(("min_direction", "get_minimized_cell(axis=%d) changed the direction of the axis vector" % axis))
            else:
                s = _frac(mc, mp)[:, axis]
                if s.min() < -1e-7 or s.max() > 1 + 1e-7:
                    viol.append(("min_inside", "get_minimized_cell(axis=%d,min=%r): scaled coordinate range [%r,%r] not inside the cell" % (axis, ms, s.min(), s.max())))
                if extent < ms - 1e-9 and abs((s.min() + s.max()) / 2 - 0.5) > 1e-7:
                    viol.append(("min_centred", "get_minimized_cell(axis=%d,min=%r): padded but not centred (mid=%r)" % (axis, ms, (s.min() + s.max()) / 2)))
            if extent < ms:
                tags.append("padded")

    # --- periodic centre of mass
    at = Atoms(numbers=num, positions=pos, cell=cell, pbc=pbc_a)
    masses = at.get_masses()
    com = g.get_center_of_mass(at)

    def resultant(frac, w):
        r = []
        for k in range(3):
            if pbc[k]:
                th = 2 * np.pi * frac[:, k]
                r.append(np.hypot((np.cos(th) * w).sum(), (np.sin(th) * w).sum()) / w.sum())
        return min(r) if r else 1.0

    def cdiff(c1, c2):
        df = _frac(cell, (np.asarray(c1) - np.asarray(c2))[None, :])[0]
        df[pbc_a] = (df[pbc_a] + 0.5) % 1.0 - 0.5
        return np.abs(df).max()

    defined = resultant(ref, masses) > 1e-6
    if defined:
        # reference: circular mean per periodic component, plain mean otherwise
        rc = np.zeros(3)
        for k in range(3):
            if pbc[k]:
                th = 2 * np.pi * ref[:, k]
                rc[k] = (np.arctan2((np.sin(th) * masses).sum(), (np.cos(th) * masses).sum()) / (2 * np.pi)) % 1.0
            else:
                rc[k] = (ref[:, k] * masses).sum() / masses.sum()
        if cdiff(com, rc @ cell) > 1e-7:
            viol.append(("com_value", "periodic centre of mass %s differs from the circular-mean reference %s" % (com, rc @ cell)))
        for t in (np.array([0.37, -1.21, 2.05]), cell[0] * 0.5 + cell[2] * 0.25, -cell[1] * 1.5):
            at2 = Atoms(numbers=num, positions=pos + t, cell=cell, pbc=pbc_a)
            if cdiff(g.get_center_of_mass(at2), com + t) > 1e-7:
                viol.append(("com_translation", "centre of mass does not follow a rigid translation by %s (mod lattice)" % t))
                break
        done = False
        for i in range(n):
            for k in range(3):
                if not pbc[k] or done:
                    continue
                for sgn in (1, -1, 3):
                    p2 = pos.copy()
                    p2[i] += sgn * cell[k]
                    at2 = Atoms(numbers=num, positions=p2, cell=cell, pbc=pbc_a)
                    if cdiff(g.get_center_of_mass(at2), com) > 1e-7:
                        viol.append(("com_lattice_shift", "centre of mass changed when atom %d was shifted by %+d lattice vector %d" % (i, sgn, k)))
                        done = True
                        break
    else:
        tags.append("com_undefined")

    # --- inertia
    for weight in (True, False):
        at = Atoms(numbers=num, positions=pos, cell=cell, pbc=pbc_a)
        try:
            w, V = g.get_moments_of_inertia(at, weight)
        except Exception as e:
            viol.append(("inertia_exception", "get_moments_of_inertia(weight=%r) raised %r" % (weight, e)))
            continue
        ms_ = masses if weight else np.ones(n)
        centres = [com]
        if not weight:
            # "about that centre": accept the mass-weighted periodic centre or the unweighted periodic centre
            rc = np.zeros(3)
            for k in range(3):
                if pbc[k]:
                    th = 2 * np.pi * ref[:, k]
                    rc[k] = (np.arctan2(np.sin(th).sum(), np.cos(th).sum()) / (2 * np.pi)) % 1.0
                else:
                    rc[k] = ref[:, k].mean()
            if resultant(ref, np.ones(n)) > 1e-6:
                # the periodic centre is only defined modulo the lattice (a circular mean of exactly 0 may
                # come out as 0 or 1), so every lattice translate of the reference centre is accepted
                for nv in itertools.product(*[(-1, 0, 1) if pbc[k] else (0,) for k in range(3)]):
                    centres.append(rc @ cell + np.array(nv, float) @ cell)
                # the unweighted periodic centre reported by the library itself must be that reference centre (mod lattice)
                try:
                    cu = g.get_center_of_mass(at, False)
                    if cdiff(cu, rc @ cell) > 1e-7:
                        viol.append(("com_unweighted", "get_center_of_mass(weight=False)=%s differs from the unweighted circular-mean reference %s" % (cu, rc @ cell)))
                    else:
                        centres.append(cu)  # the same point up to a lattice translation chosen by the library
                except TypeError:
                    pass
            else:
                centres = []
        elif not defined:
            centres = []
        if not centres:
            continue
        ok = False
        for c in centres:
            # the centre is defined modulo the lattice; positions are taken as given (like the code does)
            cand = [c]
            fc = _frac(cell, np.asarray(c)[None, :])[0]
            fcom = _frac(cell, np.asarray(g.get_center_of_mass(at))[None, :])[0]
            q = pos - c
            T = np.zeros((3, 3))
            for m_, r in zip(ms_, q):
                T += m_ * ((r @ r) * np.eye(3) - np.outer(r, r))
            sc = 1 + np.abs(T).max()
            if np.abs(T @ V - V * w[None, :]).max() <= 1e-7 * sc and np.abs(V.T @ V - np.eye(3)).max() <= 1e-8:
                ok = True
        if not ok:
            viol.append(("inertia", "get_moments_of_inertia(weight=%r): (w,V) is not an eigen-decomposition of the inertia tensor about the periodic centre" % weight))
    return viol, tags


def run_shard(shard, tier, seed):
    ci, pbc = shard
    cells, possets = _setup(tier, seed)
    name, rn, cell = cells[ci]
    res = Result()
    for fam, kind, frac in possets:
        pos = frac @ cell
        res.counters["evaluations"] += 1
        res.counters["states"] += 1
        res.counters["transitions"] += 4 + 4 + 2 + 9 + 4 + 2
        res.counters["traces"] += 1
        try:
            viol, tags = check_case(pos, cell, pbc)
        except Exception as e:
            viol, tags = [("exception", repr(e))], ["exc"]
        res.outcomes[",".join(sorted(set(tags))) or "plain"] += 1
        if np.any(frac < 0) or np.any(frac >= 1):
            res.counters["nontrivial_distinct"] += 1
        if viol or res.counters["evaluations"] % 2003 == 1:
            case = {"cell": cell.tolist(), "pbc": list(pbc), "pos": pos.tolist(), "cellname": name, "rot": rn, "family": fam, "kind": kind}
            res.sample(case)
            seen = set()
            for k, dmsg in viol:
                if k in seen:
                    continue
                seen.add(k)
                res.violation("c20." + k, {"case": short_hash(case)}, case, dmsg)
    return res


def replay(case):
    try:
        viol, _ = check_case(case["pos"], case["cell"], tuple(case["pbc"]))
    except Exception as e:
        viol = [("exception", repr(e))]
    out, seen = [], set()
    for k, d in viol:
        if k in seen:
            continue
        seen.add(k)
        out.append({"signature": {"check": "c20." + k, "case": short_hash(case)}, "case": case, "reason": d})
    return out


def describe(tier, seed):
    ps = _possets(tier, seed)
    return {
        "rule": "every (cell x rotation x pbc mask x atom set) with 1-3 atoms (Z=1,8,29) on a half-step fractional grid over [-1,2)^3, exact and with a generic offset; "
                "per input: to_scaled/to_cartesian round trips and wrapping, swap_basis (4 index pairs), complete_cell (2 lengths), get_minimized_cell (3 axes x 3 min sizes), "
                "periodic centre of mass (value, 3 translations, lattice-vector shifts of every atom), get_moments_of_inertia (weighted/unweighted)",
        "nontrivial_rule": "inputs with at least one atom outside the cell",
        "bounds": {"cells": len(_cells(tier, seed)), "pbc_masks": 8, "position_sets": len(ps), "min_sizes": MIN_SIZES, "generic_row": seed % 4},
        "assumptions": ["atomic extent along an axis = fractional extent times the length of that cell vector (the direction of the vector is kept)",
                        "centre-of-mass clauses skipped (counted in outcome 'com_undefined') when a circular-mean resultant is < 1e-6",
                        "for weight=False the inertia tensor may be taken about either the mass-weighted or the unweighted periodic centre"],
        "exhaustive": True,
    }
