"""C03 - SBC separates a two-material stack into exactly the two slabs.

All ordered pairs of distinct fcc metals on (100)/(111) and bcc metals on (100)/(110) with lattice mismatch < 5 %
that pass the independent precondition after straining to the common in-plane cell; layer counts, lateral size,
pbc, noise, atom order and scripted seed choices enumerated."""
import itertools

import numpy as np
from ase import Atoms
from ase.data import atomic_numbers, covalent_radii, reference_states

from mc import catalog, geom, sbc_harness
from mc.engine import Result, short_hash

PROPERTY = "C03"
BT, OT, MARGIN = 0.65, -0.6, 0.1


def metals(kind):
    out = []
    for name, k in catalog.elements():
        if k == kind and catalog.precondition(name) is None:
            out.append((name, reference_states[atomic_numbers[name]]["a"]))
    return out


def slab_layers(sym, kind, facet, a_in, a_out, nlayers, rep):
    """Layer-by-layer construction of an fcc/bcc slab strained to in-plane constant a_in, out-of-plane a_out.
    Returns (positions, 2D cell vectors a,b, interlayer spacing)."""
    if kind == "fcc" and facet == "100":
        va, vb = np.array([a_in / np.sqrt(2), 0, 0]), np.array([0, a_in / np.sqrt(2), 0])
        dz = a_out / 2
        shifts = [np.zeros(3), (va + vb) / 2]
    elif kind == "fcc" and facet == "111":
        l = a_in / np.sqrt(2)
        va, vb = np.array([l, 0, 0]), np.array([l / 2, l * np.sqrt(3) / 2, 0])
        dz = a_out / np.sqrt(3)
        shifts = [np.zeros(3), (va + vb) / 3, 2 * (va + vb) / 3]
    elif kind == "bcc" and facet == "100":
        va, vb = np.array([a_in, 0, 0]), np.array([0, a_in, 0])
        dz = a_out / 2
        shifts = [np.zeros(3), (va + vb) / 2]
    elif kind == "bcc" and facet == "110":
        va, vb = np.array([a_in, 0, 0]), np.array([a_in / 2, a_in / np.sqrt(2), 0])
        dz = a_out / np.sqrt(2)
        # rectangular-centred net: the next layer sits over the long bridge
        shifts = [np.zeros(3), np.array([a_in / 2, 0, 0]) + 0 * vb]
        shifts = [np.zeros(3), va / 2]
    pos = []
    for L in range(nlayers):
        sh = shifts[L % len(shifts)]
        for i in range(rep):
            for j in range(rep):
                pos.append(i * va + j * vb + sh + np.array([0, 0, L * dz]))
    return np.array(pos), va * rep, vb * rep, dz, shifts


def stack(A, B, kind, facet, nA, nB, rep, pbc_mode):
    (sa, aA), (sb, aB) = A, B
    a_in = (aA + aB) / 2
    pA, va, vb, dzA, shifts = slab_layers(sa, kind, facet, a_in, aA, nA, rep)
    pB, _, _, dzB, _ = slab_layers(sb, kind, facet, a_in, aB, nB, rep)
    gap = (dzA + dzB) / 2
    # continue the stacking sequence across the interface
    offset = shifts[nA % len(shifts)] - shifts[0]
    pB = pB + offset + np.array([0, 0, pA[:, 2].max() + gap])
    pos = np.vstack([pA, pB])
    height = pos[:, 2].max()
    if pbc_mode == "TTF":
        c = np.array([0, 0, height + 8.0])
        pbc = [True, True, False]
        pos[:, 2] += 4.0
    elif pbc_mode == "TTT":
        c = np.array([0, 0, height + 14.0])
        pbc = [True, True, True]
        pos[:, 2] += 7.0
    else:  # superlattice: periodic stacking without vacuum
        c = np.array([0, 0, height + gap]) + (shifts[(nA + nB) % len(shifts)] - shifts[0])
        pbc = [True, True, True]
    at = Atoms([sa] * len(pA) + [sb] * len(pB), positions=pos, cell=[va, vb, c], pbc=pbc)
    return at, len(pA)


def gaps_ok(at):
    """Independent precondition on the strained stack: every atom bonded to its nearest neighbour, no pair overlapping, with margin."""
    sup = at.repeat((3, 3, 1)) if not at.get_pbc()[2] else at.repeat((3, 3, 3))
    n = len(at)
    P, Z = sup.get_positions(), sup.get_atomic_numbers()
    c0 = (4 if not at.get_pbc()[2] else 13) * n
    for i in range(c0, c0 + n):
        d = np.linalg.norm(P - P[i], axis=1)
        d[i] = np.inf
        g = d - covalent_radii[Z[i]] - covalent_radii[Z]
        if g[int(np.argmin(d))] > BT - MARGIN or g.min() < OT + MARGIN:
            return False
    return True


def pairs(tier):
    out = []
    for kind, facets in (("fcc", ("100", "111")), ("bcc", ("100", "110"))):
        ms = metals(kind)
        for A, B in itertools.permutations(ms, 2):
            if abs(A[1] - B[1]) / min(A[1], B[1]) < 0.05:
                for f in facets:
                    out.append((A, B, kind, f))
    if tier == "quick":
        keep = {("Cu", "Ni"), ("Au", "Ag"), ("Pd", "Pt"), ("Fe", "Cr"), ("Mo", "Nb"), ("Al", "Au"), ("Ir", "Rh")}
        out = [p for p in out if (p[0][0], p[1][0]) in keep]
    return out


def roots(tier):
    out = []
    for A, B, kind, f in pairs(tier):
        for nA, nB in ((3, 3), (3, 5)) if tier == "quick" else ((3, 3), (3, 5), (5, 3), (4, 4)):
            for rep in (4,) if tier == "quick" else (4, 5):
                for mode in ("TTF", "TTT", "SL"):
                    if mode == "SL" and tier == "quick" and (nA, nB) != (3, 3):
                        continue
                    out.append((A, B, kind, f, nA, nB, rep, mode))
    return out


def shards(tier, seed):
    return list(range(len(roots(tier))))


def orderings(n, nA):
    ident = list(range(n))
    inter = [x for p in itertools.zip_longest(range(nA), range(nA, n)) for x in p if x is not None]
    return [("AB", ident), ("interleaved", inter), ("reversed", ident[::-1])]


def check_root(root, tier, seed, res=None, only=None):
    A, B, kind, f, nA, nB, rep, mode = root
    at, na = stack(A, B, kind, f, nA, nB, rep, mode)
    if not gaps_ok(at):
        return "filtered", []
    n = len(at)
    viol = []
    slabA, slabB = set(range(na)), set(range(na, n))
    layer_size = rep * rep
    for noise in (0.0, 0.03):
        for oname, order in orderings(n, na):
            if noise and oname != "AB" and tier == "quick":
                continue
            pos = at.get_positions() + (catalog.noise_field(n, seed % 4, noise) if noise else 0)
            a2 = Atoms(numbers=at.get_atomic_numbers()[order], positions=pos[order], cell=at.get_cell(), pbc=at.get_pbc())
            inv = {new: old for new, old in enumerate(order)}
            # seed classes: one atom per (slab, distance from the interface): bottom/interface/top layers
            cand_old = [0, na - 1, na, n - 1, (nA // 2) * layer_size]
            ranks = sorted({order.index(o) for o in cand_old})
            scripts = [(r,) if r else () for r in ranks] if (oname == "AB" and not noise) else [(), (ranks[len(ranks) // 2],)]
            label = "noise%g/%s" % (noise, oname)
            if only is not None:
                if label != only[0]:
                    continue
                scripts = [tuple(only[1])]
            for script in scripts:
                try:
                    clusters, trace = sbc_harness.run_scripted(a2, list(script))
                except Exception as e:
                    viol.append((label, script, "exception", "get_clusters raised %r" % (e,)))
                    continue
                if res is not None:
                    res.counters["states"] += 1
                    res.counters["evaluations"] += 1
                    res.counters["transitions"] += len(trace)
                    res.outcomes["ncl=%d" % len(clusters)] += 1
                got = sorted((sorted(inv[int(i)] for i in c.indices) for c in clusters), key=lambda x: x[0] if x else -1)
                if len(clusters) != 2 or set(got[0]) != slabA or set(got[1]) != slabB:
                    viol.append((label, script, "not_two_slabs", "expected the two slabs (%d + %d atoms), got %d cluster(s) of sizes %s" % (na, n - na, len(clusters), sorted(len(g) for g in got)[-4:])))
                    continue
                dims = [c.get_dimensionality() for c in clusters]
                if dims != [2, 2]:
                    viol.append((label, script, "dimensionality", "cluster dimensionalities %s, expected [2, 2]" % dims))
    return "ok", viol


def _rj(root):
    A, B, kind, f, nA, nB, rep, mode = root
    return [A[0], B[0], kind, f, nA, nB, rep, mode]


def run_shard(shard, tier, seed):
    res = Result()
    root = roots(tier)[shard]
    status, viol = check_root(root, tier, seed, res)
    res.counters["traces"] += 1
    if status == "filtered":
        res.counters["filtered_by_precondition"] += 1
        return res
    res.nontrivial.add(str(_rj(root)))
    res.sample({"stack": _rj(root)})
    seen = set()
    for label, script, kind, d in viol:
        if (label, kind) in seen:
            continue
        seen.add((label, kind))
        case = {"root": _rj(root), "presentation": label, "script": list(script), "tier": tier, "seed": seed}
        res.violation("c03." + kind, {"root": str(_rj(root)), "presentation": label, "script": str(list(script))}, case, "%s, %s, seed choices %s: %s" % (_rj(root), label, list(script), d))
    return res


def replay(case):
    r = case["root"]
    amap = dict(metals("fcc") + metals("bcc"))
    root = ((r[0], amap[r[0]]), (r[1], amap[r[1]]), r[2], r[3], r[4], r[5], r[6], r[7])
    _, viol = check_root(root, case.get("tier", "quick"), case.get("seed", 0), None, only=(case["presentation"], case["script"]))
    return [{"signature": {"check": "c03." + kind, "root": str(case["root"]), "presentation": label, "script": str(list(script))}, "case": case, "reason": d} for label, script, kind, d in viol]


def describe(tier, seed):
    ps = pairs(tier)
    return {
        "rule": "every ordered pair of distinct catalogue fcc metals on (100)/(111) and bcc metals on (100)/(110) with mismatch < 5 %% (%s) x layer counts x lateral repeat x {TTF, TTT+vacuum} -> stack strained to the mean in-plane constant, "
                "interface gap = mean interlayer spacing; filtered by the independent bonding/overlap precondition; x {no noise, 0.03 A field} x atom orderings {A then B, interleaved, reversed} x seed-choice scripts "
                "(one atom per slab at the outer, middle and interface layers). states = get_clusters executions, transitions = seed choices" % ("quick: 7 listed pairs" if tier == "quick" else "all"),
        "nontrivial_rule": "each stack root that passes the precondition",
        "bounds": {"pairs": sorted({(p[0][0], p[1][0], p[2]) for p in ps}), "roots": len(roots(tier))},
        "assumptions": ["covalent radii; margin 0.1 A on bond and overlap thresholds", "the stacking direction is explored as non-periodic (TTF), periodic with vacuum (TTT) and periodic without vacuum (SL: A/B/A/B superlattice)"],
        "exhaustive": True,
    }
