"""C04 - a cluster's prototype cell identifies the material it was cut from.

Catalogue roots of C02 (unperturbed and rattled by 0.02 A) and monolayer supercells; the
cluster's prototype cell is analysed with SymmetryAnalyzer and compared with the analysis of
the source unit cell at the same tolerance."""
import numpy as np

from mc import catalog, geom, present, sbc_harness
from mc.engine import Result, short_hash
from mc.present import S
from mc.props import _catfam

PROPERTY = "C04"


def mono_roots(tier):
    out = []
    for name in catalog.monolayers():
        for rep in (3, 4) if tier == "quick" else (3, 4, 5, 6):
            for pz in (False, True):
                out.append((name, ("mono", rep, pz)))
    return out


def all_roots(tier):
    # the three/four-atomic-layer slabs of the catalogue are explored by C02 and C18; C04 keeps to the
    # surface-cell-layer slabs (a 3-atomic-layer diamond or hcp slab is a borderline 2D material for the cell clause)
    return [r for r in _catfam.roots(tier) if r[1][0] != "thin"] + mono_roots(tier)


def shards(tier, seed):
    return list(range(len(all_roots(tier))))


def source_unit(name, variant):
    if variant[0] == "mono":
        u = catalog.monolayers()[name].copy()
        u.set_pbc([True, True, False])
        c = np.array(u.get_cell())
        c[2] = [0, 0, 12.0]
        u.set_cell(c)
        u.center(axis=2)
        return u
    u, _ = catalog.conventional(name)
    return u.copy()


def build(name, variant):
    if variant[0] == "mono":
        u = catalog.monolayers()[name].copy()
        c = np.array(u.get_cell())
        c[2] = [0, 0, 14.0]
        u.set_cell(c)
        u.center(axis=2)
        at = u.repeat((variant[1], variant[1], 1))
        at.set_pbc([True, True, bool(variant[2])])
        return at
    return _catfam.build(name, variant)[0]


def signature_of(atoms, tol):
    from matid.symmetry import SymmetryAnalyzer

    an = SymmetryAnalyzer(atoms, tol)
    sets = sorted((w.wyckoff_letter, w.element, w.multiplicity) for w in an.get_wyckoff_sets_conventional(False))
    return {"id": an.get_material_id(), "sg": int(an.get_space_group_number()), "sets": sets}


def check_root(name, variant, tier, seed, res=None, only=None):
    at = build(name, variant)
    n = len(at)
    s0 = S(at.get_atomic_numbers(), at.get_positions(), np.array(at.get_cell()), at.get_pbc())
    gr = geom.generic_rotations(seed, 1)
    pres = [("id", s0, 0.1), ("noise@0.02", S(s0.num, s0.pos + catalog.noise_field(n, seed % 4, 0.02), s0.cell, s0.pbc), 0.5),
            ("rot.g0+trans", present.translate(present.rotate(s0, gr[0]), np.array([1.1, -0.7, 0.4])), 0.1),
            ("perm.rev", present.permute(s0, list(range(n))[::-1]), 0.1)]
    if tier != "quick":
        pres.append(("noise2@0.02+rot", present.rotate(S(s0.num, s0.pos + catalog.noise_field(n, (seed + 2) % 4, 0.02), s0.cell, s0.pbc), gr[0]), 0.5))
    unit = source_unit(name, variant)
    viol = []
    ref_cache = {}
    want_pbc = 2 if variant[0] == "mono" else 3
    for label, s, tol in pres:
        if only is not None and label != only[0]:
            continue
        scripts = [(), (n // 2,)] if label == "id" else [()]
        if tier != "quick" and label == "id":
            scripts.append((n - 1,))
        if only is not None:
            scripts = [tuple(only[1])]
        for script in scripts:
            try:
                clusters, trace = sbc_harness.run_scripted(s.atoms(), list(script))
            except Exception as e:
                continue  # C01/C02's business
            if res is not None:
                res.counters["states"] += 1
                res.counters["evaluations"] += 1
                res.counters["transitions"] += 1 + len(trace)
            if variant[0] == "mono":
                # C02 makes no completeness claim for monolayers: judge the prototype cell of the cluster holding most atoms
                if not clusters:
                    viol.append((label, script, "no_cluster", "no cluster was returned for the monolayer"))
                    continue
                big = max(clusters, key=lambda c: len(c.indices))
                if res is not None and (len(clusters) != 1 or len(big.indices) != n):
                    res.counters["monolayer_not_single_cluster"] += 1
            else:
                if len(clusters) != 1 or len(clusters[0].indices) != n:
                    if res is not None:
                        res.counters["filtered_not_single_cluster"] += 1  # that is C02's claim, not C04's
                    continue
                big = clusters[0]
            cell = big.get_cell()
            if cell is None:
                viol.append((label, script, "no_cell", "the cluster exposes no prototype cell"))
                continue
            npbc = int(np.sum(cell.get_pbc()))
            if npbc != want_pbc:
                viol.append((label, script, "cell_pbc", "prototype cell periodic in %d directions, expected %d" % (npbc, want_pbc)))
                continue
            if tol not in ref_cache:
                ref_cache[tol] = signature_of(unit, tol)
            ref = ref_cache[tol]
            try:
                got = signature_of(cell, tol)
            except Exception as e:
                viol.append((label, script, "analysis_exception", "SymmetryAnalyzer on the prototype cell raised %r" % (e,)))
                continue
            if res is not None:
                res.outcomes["sg%d" % got["sg"]] += 1
            if got != ref:
                viol.append((label, script, "identity", "prototype cell analysed as %s, the source unit cell as %s (tolerance %g)" % (got, ref, tol)))
            # whole number of formula units
            zc = np.unique(cell.get_atomic_numbers(), return_counts=True)
            zu = np.unique(unit.get_atomic_numbers(), return_counts=True)
            if zc[0].tolist() != zu[0].tolist() or len(set(np.round(zc[1] / zu[1] * np.gcd.reduce(zu[1]), 9))) != 1 or any((zc[1] * np.gcd.reduce(zu[1])) % zu[1]):
                viol.append((label, script, "formula_units", "prototype cell composition %s is not a whole number of formula units %s" % (dict(zip(*map(np.ndarray.tolist, zc))), dict(zip(*map(np.ndarray.tolist, zu))))))
    return viol, n


def _vj(variant):
    return [v if not isinstance(v, tuple) else list(v) for v in variant]


def _is_thin(variant):
    return variant[0] == "thin"


def run_shard(shard, tier, seed):
    res = Result()
    name, variant = all_roots(tier)[shard]
    viol, n = check_root(name, variant, tier, seed, res)
    res.counters["traces"] += 1
    res.nontrivial.add("%s:%s" % (name, variant))
    res.sample({"material": name, "variant": _vj(variant), "atoms": n})
    seen = set()
    for label, script, kind, d in viol:
        if (label, kind) in seen:
            continue
        seen.add((label, kind))
        case = {"material": name, "variant": _vj(variant), "presentation": label, "script": list(script), "tier": tier, "seed": seed}
        res.violation("c04." + kind, {"material": name, "variant": str(_vj(variant)), "presentation": label, "script": str(list(script))}, case,
                      "%s %s, presentation %s, seed choices %s: %s" % (name, _vj(variant), label, list(script), d))
    return res


def replay(case):
    v = case["variant"]
    variant = tuple(tuple(x) if isinstance(x, list) else x for x in v)
    viol, _ = check_root(case["material"], variant, case.get("tier", "quick"), case.get("seed", 0), None, only=(case["presentation"], case["script"]))
    return [{"signature": {"check": "c04." + kind, "material": case["material"], "variant": str(case["variant"]), "presentation": label, "script": str(list(script))}, "case": case, "reason": d}
            for label, script, kind, d in viol]


def describe(tier, seed):
    return {
        "rule": "every C02 catalogue root (bulk / slabs) and monolayer supercells (graphene, h-BN, 2H/1T MoS2, 2H WS2; %s; TTF and TTT+vacuum) x presentations {identity @0.1, 0.02 A noise field @0.5, rotation+translation, reversed order} "
                "x seed-choice scripts; where SBC returns the single complete cluster (C02's claim), its prototype cell is analysed and compared with the source unit cell analysed at the same tolerance "
                "(material id, space group, (letter, element, multiplicity) multiset), pbc count and whole formula units. states = get_clusters executions, transitions = seed choices + analyser runs" % ("3x3, 4x4" if tier == "quick" else "3x3..6x6"),
        "nontrivial_rule": "each (material, variant) root",
        "bounds": {"roots": len(all_roots(tier)), "materials": _catfam.materials(tier), "monolayers": list(catalog.monolayers())},
        "assumptions": ["runs where SBC does not return exactly one complete cluster are filtered (counted): that is C02, not C04", "same precondition filter as C02",
                        "the three/four-atomic-layer slabs that C02 and C18 explore are not part of the C04 family"],
        "exhaustive": True,
    }
