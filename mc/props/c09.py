"""C09 - dimensionality is the rank of the periodic bonding network, however presented.

Roots: complete grid families of 1-3 atoms (+ chain/layer/blob templates) in a
finite set of cells under all 8 pbc masks, radii arrays/presets and thresholds.
Every root is compared with the periodic-graph reference model and then
re-presented by every generator (supercell, basis shear, rigid motion,
permutation, lattice-vector shifts of single atoms); the real function must
return the root's reference value in every reached presentation."""
import itertools

import numpy as np

from mc import geom, present
from mc.engine import Result, short_hash
from mc.present import S

PROPERTY = "C09"
EPS = 1e-6


def _cells(tier, seed):
    base = geom.base_cells()
    gr = geom.generic_rotations(seed, 2)
    out = [
        ("cubic4", base["cubic4"]),
        ("needle", base["needle"]),
        ("plate.g0", base["plate"] @ gr[0].T),
        ("tric", base["tric"]),
        ("shear+2-1+1", geom.shear_matrix(2, -1, 1) @ (np.eye(3) * 4.0)),
    ]
    if tier != "quick":
        out += [
            ("cubic2", base["cubic2"]),
            ("tric.g1", base["tric"] @ gr[1].T),
            ("shear-1+2+0", geom.shear_matrix(-1, 2, 0) @ (np.eye(3) * 4.0)),
            ("shear+1+1-2.g0", (geom.shear_matrix(1, 1, -2) @ (np.eye(3) * 4.0)) @ gr[0].T),
        ]
    return out


def _radii_sets(n):
    if n == 1:
        return [(0.4,), (0.9,)]
    if n == 2:
        return [(0.4, 0.4), (0.4, 0.9), (0.9, 0.9)]
    return [(0.4, 0.4, 0.4), (0.9, 0.4, 0.9)]


def _roots(tier, seed, cell):
    """(tag, frac positions, radii spec, threshold). radii spec = tuple of floats or ('preset', name, numbers)."""
    off = geom.GENERIC_OFFSETS[seed % 4] * 0.5
    out = []
    g3, g4, g2 = geom.grid(3), geom.grid(4), geom.grid(2)
    out.append(("1", np.array([g3[0]]), (0.4,), 0.3))
    out.append(("1", np.array([g3[13]]), (0.9,), 3.5))
    pairs = list(itertools.combinations(g3, 2))
    if tier == "quick":
        # first atom at the origin or at the body centre; the other on any grid site
        pairs = [(g3[0], q) for q in g3[1:]] + [(g3[13], q) for q in g3 if not (np.array_equal(q, g3[13]) or np.array_equal(q, g3[0]))]
    for pr in pairs:
        f = np.array(pr)
        for R in _radii_sets(2):
            for thr in (0.3, 1.0):
                out.append(("2", f, R, thr))
        out.append(("2", f, (0.4, 0.9), 3.5))
    trip = list(itertools.combinations(g2, 3))
    if tier == "quick":
        trip = [t3 for t3 in trip if np.array_equal(t3[0], g2[0])]
    else:
        trip += list(itertools.combinations(g3, 3))[::25]
    for tr in trip:
        f = np.array(tr)
        for R in _radii_sets(3):
            for thr in (0.3, 1.0):
                out.append(("3", f, R, thr))
    # presets on element pairs (C/Cu, H/O/Pm)
    for pr in pairs[:: (9 if tier == "quick" else 25)]:
        f = np.array(pr)
        for preset, nums in (("covalent", (6, 29)), ("vdw", (1, 8)), ("vdw_covalent", (61, 8))):
            out.append(("2p", f, ("preset", preset, nums), 1.0 if preset == "covalent" else 0.3))
    # templates: diagonal chain, zig-zag chain along c, puckered layer, blob of four
    t = 1.0 / 3
    out.append(("chain_diag", np.array([[0, 0, 0.5], [t, t, 0.5], [2 * t, 2 * t, 0.5]]), (0.4, 0.4, 0.4), 0.3))
    out.append(("chain_diag", np.array([[0, 0, 0.5], [t, t, 0.5], [2 * t, 2 * t, 0.5]]), (0.4, 0.4, 0.4), 1.0))
    out.append(("chain_c", np.array([[0.5, 0.5, 0.0], [0.55, 0.5, 0.25], [0.5, 0.5, 0.5], [0.55, 0.5, 0.75]]), (0.4,) * 4, 0.3))
    out.append(("chain_c", np.array([[0.5, 0.5, 0.0], [0.55, 0.5, 0.25], [0.5, 0.5, 0.5], [0.55, 0.5, 0.75]]), (0.9,) * 4, 1.0))
    out.append(("layer", np.array([[0, 0, 0.5], [0.5, 0, 0.52], [0, 0.5, 0.52], [0.5, 0.5, 0.5]]), (0.9,) * 4, 0.3))
    out.append(("layer", np.array([[0, 0, 0.5], [0.5, 0, 0.52], [0, 0.5, 0.52], [0.5, 0.5, 0.5]]), (0.4,) * 4, 1.0))
    out.append(("blob", np.array([[0.4, 0.4, 0.4], [0.6, 0.4, 0.4], [0.4, 0.6, 0.4], [0.4, 0.4, 0.6]]), (0.4,) * 4, 0.3))
    out.append(("blob", np.array([[0.4, 0.4, 0.4], [0.6, 0.4, 0.4], [0.4, 0.6, 0.4], [0.4, 0.4, 0.6]]), (0.9,) * 4, 1.0))
    res = []
    for tag, f, R, thr in out:
        res.append((tag, "exact", f, R, thr))
    # generic offset variant for every 2nd root (removes exact ties at cell faces)
    for tag, f, R, thr in out[::2]:
        res.append((tag, "offset", f + off[None, :], R, thr))
    return res


def shards(tier, seed):
    n = len(_cells(tier, seed))
    nchunk = 6 if tier == "quick" else 16
    return [(ci, pbc, ch, nchunk) for ci in range(n) for pbc in geom.PBCS for ch in range(nchunk)]


def _resolve_radii(spec, n):
    from mc.props.c19 import reference_radii

    if spec and spec[0] == "preset":
        nums = [spec[2][i % len(spec[2])] for i in range(n)]
        return spec[1], np.array(nums), reference_radii(spec[1], nums)
    return None, np.array([1] * n), np.array(spec, float)


def real_dim(s, thr, preset):
    import matid.geometry as g

    at = s.atoms()
    radii = preset if preset is not None else s.extra.copy()
    dim, clusters = g.get_dimensionality(at, thr, radii=radii, return_clusters=True)
    return dim, len(clusters)


def expected(s, thr):
    lo = geom.periodic_rank(s.pos, s.cell, s.pbc, s.extra, thr, -EPS)
    hi = geom.periodic_rank(s.pos, s.cell, s.pbc, s.extra, thr, +EPS)
    if lo != hi:
        return "ambiguous", None
    ncomp, rz, r2 = lo
    if ncomp > 1:
        return "ok", (None, ncomp)
    if rz != r2:
        return "gf2", None
    return "ok", (rz, 1)


def presentations(s, tier, seed, full):
    """(label, structure) for every generator applicable to s (depth 1)."""
    gr = geom.generic_rotations(seed, 2)
    n = len(s.num)
    per = [k for k in range(3) if s.pbc[k]]
    out = []
    out.append(("rot.g0", present.rotate(s, gr[0])))
    out.append(("trans", present.translate(s, np.array([1.7, -2.3, 0.9]))))
    if n > 1:
        out.append(("perm.rev", present.permute(s, list(range(n))[::-1])))
    if per:
        k0 = per[0]
        M = np.eye(3, dtype=int)
        M[k0, k0] = 2
        out.append(("super2@%d" % k0, present.supercell(s, M)))
        out.append(("shift(%d,+1@%d)" % (n - 1, per[-1]), present.shift_atom(s, n - 1, per[-1], 1)))
        out.append(("shift(0,-4@%d)" % k0, present.shift_atom(s, 0, k0, -4)))
        sh = present.shears(s)
        if sh:
            out.append((sh[0][0], present.basis_change(s, sh[0][1])))
    if full:
        out.append(("rot.z90", present.rotate(s, geom.rot_axis((0, 0, 1), 90))))
        out.append(("trans.wrap", present.translate(s, np.array([-0.8, 3.1, 5.0]), rewrap=True)))
        if n > 2:
            out.append(("perm.roll", present.permute(s, list(range(1, n)) + [0])))
        for k in per[1:]:
            M = np.eye(3, dtype=int)
            M[k, k] = 2
            out.append(("super2@%d" % k, present.supercell(s, M)))
        if len(per) >= 2:
            M = np.eye(3, dtype=int)
            M[per[0], per[0]] = 1
            M[per[0], per[1]] = 1
            M[per[1], per[0]] = -1
            M[per[1], per[1]] = 1
            out.append(("super.rot45", present.supercell(s, M)))
        for name, M in present.shears(s)[1:]:
            out.append((name, present.basis_change(s, M)))
            out.append((name + ".unwrapped", present.basis_change(s, M, rewrap=False)))
        for i in range(n):
            for k in per:
                for m in (1, -1, 4, -5):
                    out.append(("shift(%d,%+d@%d)" % (i, m, k), present.shift_atom(s, i, k, m)))
    return out


def bfs_generators(seed):
    gr = geom.generic_rotations(seed, 1)

    def gen(s):
        n = len(s.num)
        per = [k for k in range(3) if s.pbc[k]]
        yield "rot.g0", present.rotate(s, gr[0])
        yield "trans", present.translate(s, np.array([1.7, -2.3, 0.9]))
        if n > 1:
            yield "perm.roll", present.permute(s, list(range(1, n)) + [0])
        if n <= 16:
            for k in per:
                M = np.eye(3, dtype=int)
                M[k, k] = 2
                yield "super2@%d" % k, present.supercell(s, M)
        for name, M in present.shears(s)[::2]:
            yield name, present.basis_change(s, M)
        if per and n <= 8:
            yield "shift(0,-1@%d)" % per[0], present.shift_atom(s, 0, per[0], -1)
            yield "shift(%d,+2@%d)" % (n - 1, per[-1]), present.shift_atom(s, n - 1, per[-1], 2)

    return gen


def check_bfs(s, thr, preset, seed, depth, res=None):
    """Depth-bounded BFS over presentation words from one root; the reference model is evaluated in every state
    (it is invariant by construction except under supercells, where disconnected copies legitimately give None)."""
    status, exp = expected(s, thr)
    if status != "ok":
        return status, []
    states, ntrans, capped = present.bfs(s, bfs_generators(seed), depth, max_states=400)
    viol = []
    for word, p in states:
        want = exp[0]
        if any(w.startswith("super") for w in word):
            st, ep = expected(p, thr)
            if st != "ok":
                continue
            want = ep[0]
        try:
            got = real_dim(p, thr, preset)[0]
        except Exception as e:
            got = "EXC:" + type(e).__name__
        if got != want:
            viol.append(("bfs", "/".join(word) or "root", "get_dimensionality=%r after the word %s, reference %r" % (got, list(word), want), got, want))
    if res is not None:
        res.counters["states"] += len(states)
        res.counters["evaluations"] += len(states)
        res.counters["transitions"] += ntrans
        if capped:
            res.counters["caps_hit"] += 1
    return "dim=%s" % (exp[0],), viol


def check_root(s, thr, preset, tier, seed, full, res=None):
    """Returns list of (kind, label, detail, observed, expected)."""
    status, exp = expected(s, thr)
    if status != "ok":
        return status, []
    viol = []
    try:
        got = real_dim(s, thr, preset)
    except Exception as e:
        got = ("EXC", repr(e))
    if got != exp:
        viol.append(("oracle", "root", "get_dimensionality=%r (n clusters %r) but the periodic bonding graph gives %r (%r components)" % (got[0], got[1], exp[0], exp[1]), got, exp))
    npres = 0
    for label, p in presentations(s, tier, seed, full):
        npres += 1
        try:
            gp = real_dim(p, thr, preset)
        except Exception as e:
            gp = ("EXC", repr(e))
        want = exp[0]
        if label.startswith("super"):
            # A supercell along a direction in which the network is NOT connected to its images holds several
            # copies, i.e. several components: the first sentence of the property then demands None. The reference
            # model is therefore evaluated on the supercell itself; invariance is demanded wherever it stays connected.
            st, ep = expected(p, thr)
            if st != "ok":
                continue
            want = ep[0]
            if want is not None and want != exp[0]:
                raise RuntimeError("reference model is not supercell-invariant on a connected supercell: %r vs %r" % (ep, exp))
        if gp[0] != want:
            viol.append(("presentation", label, "get_dimensionality=%r after %s, reference %r (root %r)" % (gp[0], label, want, exp[0]), gp[0], want))
    if res is not None:
        res.counters["transitions"] += npres
        res.counters["states"] += 1 + npres
        res.counters["evaluations"] += 1 + npres
    return "dim=%s" % (exp[0],), viol


def run_shard(shard, tier, seed):
    ci, pbc, ch, nchunk = shard
    name, cell = _cells(tier, seed)[ci]
    roots = _roots(tier, seed, cell)
    res = Result()
    for idx in range(ch, len(roots), nchunk):
        tag, kind, frac, rspec, thr = roots[idx]
        preset, nums, R = _resolve_radii(rspec, len(frac))
        s = S(nums, frac @ cell, cell, pbc, R)
        full = (idx % (12 if tier == "quick" else 6) == 0) or tag not in ("2", "3")
        case = None
        try:
            outcome, viol = check_root(s, thr, preset, tier, seed, full, res)
            if tier != "quick" and tag not in ("1", "2", "3", "2p") and kind == "exact":
                # templates: explicit-state BFS over presentation words to depth 2
                _, v2 = check_bfs(s, thr, preset, seed, 2, res)
                viol = viol + v2
        except Exception as e:
            import traceback

            raise RuntimeError("harness error on root %r: %s" % ((name, pbc, tag, kind, frac.tolist(), rspec, thr), traceback.format_exc()))
        res.outcomes[outcome] += 1
        res.counters["traces"] += 1
        if outcome in ("ambiguous", "gf2"):
            res.counters[outcome] += 1
            continue
        if outcome not in ("dim=None", "dim=0"):
            res.counters["nontrivial_distinct"] += 1
        if viol or idx % 1499 == 0:
            case = {"struct": s.case(), "thr": thr, "preset": preset, "cellname": name, "family": tag, "kind": kind, "full": full}
            res.sample({k: case[k] for k in ("cellname", "family", "kind", "thr", "preset")} | {"pbc": list(pbc), "frac": frac.tolist(), "radii": R.tolist()})
        seen = set()
        for k, label, d, obs, exp in viol:
            if (k, label) in seen:
                continue
            seen.add((k, label))
            res.violation("c09." + k, {"case": short_hash(case), "presentation": label}, case, d, obs, exp)
    return res


def replay(case):
    s = S.from_case(case["struct"])
    _, viol = check_root(s, case["thr"], case["preset"], "thorough", 0, case.get("full", True))
    if case.get("family") not in ("1", "2", "3", "2p"):
        viol = viol + check_bfs(s, case["thr"], case["preset"], 0, 2)[1]
    out, seen = [], set()
    for k, label, d, obs, exp in viol:
        if (k, label) in seen:
            continue
        seen.add((k, label))
        out.append({"signature": {"check": "c09." + k, "case": short_hash(case), "presentation": label}, "case": case, "reason": d, "observed": obs, "expected": exp})
    return out


def describe(tier, seed):
    cells = _cells(tier, seed)
    nroots = len(_roots(tier, seed, cells[0][1]))
    return {
        "rule": "roots = (cell x pbc mask x {1 atom, atom pairs on F_3 (%s), triples on F_2%s, chain/layer/blob templates} x radii arrays/presets x thresholds, exact and offset); "
                "each root is compared with the periodic bonding-graph reference (union-find with offsets, integer rank of cycle vectors) and re-presented by the generators "
                "{generic rotation, translation (atoms leave the cell), reversal, 2x supercell, unimodular shear, shift of single atoms by +1/-4 lattice vectors}%s; "
                "states = structures executed, transitions = generator applications" % ("first atom at origin or body centre" if tier == "quick" else "all 351", " containing the origin" if tier == "quick" else " + every 25th triple on F_3",
                " (full generator set on every 12th pair/triple root and all other roots)" if tier == "quick" else " on every root; on every 6th pair/triple root and all other roots additionally Rz90, wrapped translation, roll, all supercells incl. the 45-degree one, all shears wrapped/unwrapped, all atoms x axes x {+1,-1,+4,-5} shifts"),
        "nontrivial_rule": "roots whose reference dimensionality is 1, 2 or 3 (connected to their own periodic images)",
        "bounds": {"cells": [c[0] for c in cells], "pbc_masks": 8, "roots_per_cell_and_mask": nroots, "depth": 1, "eps_band": EPS},
        "assumptions": ["roots whose bond set changes within +-1e-6 of the threshold are skipped (counted 'ambiguous')", "roots whose GF(2) rank differs from the integer rank are outside the stated family (counted 'gf2')"],
        "exhaustive": True,
    }
