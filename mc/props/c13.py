"""C13 - Cluster.get_dimensionality agrees with get_dimensionality of the cluster's atoms.

Every cluster produced by the C01 end-to-end exploration (families F1/F2/F3, where merging,
overlap resolution and outlier removal really drop atoms) x radii/bond-threshold variations x
call histories on the Cluster object; differential oracle = the public function on the cluster's
own atoms with the radii and threshold used for the clustering."""
import numpy as np

from mc import families, sbc_harness
from mc.engine import Result, short_hash
from mc.props import _sbcfam

PROPERTY = "C13"
NCHUNK = {"quick": 64, "thorough": 256}
PARAMS = [{}, {"bond_threshold": 0.4}, {"bond_threshold": 1.0}, {"radii": "vdw"}, {"radii": "vdw_covalent"}, {"radii": "custom"}]
HISTORIES = (("dim",), ("dim", "dim"), ("atoms", "cell", "dim", "dim"), ("len", "dim", "atoms", "dim"))


def shards(tier, seed):
    return [("e2e", ch, NCHUNK[tier]) for ch in range(NCHUNK[tier])]


def run_history(cluster, hist):
    outs = []
    for op in hist:
        if op == "dim":
            outs.append(cluster.get_dimensionality())
        elif op == "atoms":
            cluster.get_atoms()
        elif op == "cell":
            cluster.get_cell()
        elif op == "len":
            len(cluster)
    return outs


def check_structure(label, atoms, hint, tier, seed, res=None, only=None):
    import matid.geometry as g

    viol = []
    n = len(atoms)
    if label == "zero_cell_periodic":
        return viol
    is_base = (":" not in label) or label.startswith("mol:")
    k = sum(ord(c) for c in label)
    plist = PARAMS if (is_base or tier != "quick" or k % 5 == 0) else [{}, PARAMS[1 + k % 5]]
    for pr in plist:
        if only is not None and pr != only["params"]:
            continue
        params = _sbcfam.resolve_params(pr, atoms)
        ranks = _sbcfam.first_ranks(hint, n)
        scripts = [()] + [(r,) for r in ranks[1:3]]
        if n <= 8:
            scripts = [()] + [(r,) for r in range(1, n)]
        if only is not None:
            scripts = [tuple(only["script"])]
        for script in scripts:
            bt = params.get("bond_threshold", 0.65)
            for hi, hist in enumerate(HISTORIES):
                if hi and (tier == "quick" and (k + len(script)) % 2):
                    continue
                try:
                    clusters, trace = sbc_harness.run_scripted(atoms, list(script), **params)
                except Exception as e:
                    break  # C01's business
                if res is not None:
                    res.counters["states"] += 1
                    res.counters["evaluations"] += 1
                    res.counters["transitions"] += len(hist) * len(clusters)
                for ci, c in enumerate(clusters):
                    try:
                        outs = run_history(c, hist)
                    except Exception as e:
                        viol.append((pr, script, hist, "exception", "Cluster.get_dimensionality raised %r" % (e,)))
                        continue
                    sub = c.get_atoms()
                    if isinstance(params.get("radii", "covalent"), str):
                        R = _sbcfam.radii_for(params, sub.get_atomic_numbers())
                    else:
                        R = np.asarray(params["radii"], float)[c.indices]
                    ref = g.get_dimensionality(sub.copy(), bt, radii=R.copy())
                    if res is not None:
                        res.outcomes["dim=%s cleaned=%s" % (ref, len(c.indices) < n)] += 1
                        if len(c.indices) < n:
                            res.nontrivial.add(short_hash([label, str(pr), list(script), ci]))
                    if any(o != ref for o in outs):
                        viol.append((pr, script, hist, "shortcut", "cluster %d (%d of %d atoms), calls %s: Cluster.get_dimensionality() returned %s, get_dimensionality(cluster.get_atoms(), %g, radii=<those used>) = %r" % (ci, len(c.indices), n, list(hist), outs, bt, ref)))
    return viol


def run_shard(shard, tier, seed):
    res = Result()
    _, ch, nch = shard
    structs = _sbcfam.structure_list(tier, seed)
    for k in range(ch, len(structs), nch):
        label, atoms, hint = structs[k]
        res.counters["traces"] += 1
        viol = check_structure(label, atoms, hint, tier, seed, res)
        if k % 211 == 0:
            res.sample({"label": label, "atoms": len(atoms), "pbc": atoms.get_pbc().tolist()})
        seen = set()
        for pr, script, hist, kind, d in viol:
            key = (kind, str(pr))
            if key in seen:
                continue
            seen.add(key)
            pj = {kk: (vv if not isinstance(vv, np.ndarray) else "custom") for kk, vv in pr.items()}
            case = {"label": label, "atoms": families.atoms_case(atoms), "params": pj, "script": list(script), "history": list(hist), "tier": tier, "seed": seed}
            res.violation("c13." + kind, {"label": label, "params": str(pj), "script": str(list(script))}, case, "%s, params %s, seed choices %s: %s" % (label, pj, list(script), d))
    return res


def replay(case):
    atoms = families.atoms_from_case(case["atoms"])
    viol = check_structure(case["label"], atoms, None, "thorough", case.get("seed", 0), None, only={"params": case["params"], "script": case["script"]})
    out = []
    for pr, script, hist, kind, d in viol:
        pj = {kk: (vv if not isinstance(vv, np.ndarray) else "custom") for kk, vv in pr.items()}
        out.append({"signature": {"check": "c13." + kind, "label": case["label"], "params": str(pj), "script": str(list(script))}, "case": case, "reason": d})
    return out


def describe(tier, seed):
    structs = _sbcfam.structure_list(tier, seed)
    return {
        "rule": "every structure of the C01 families (F1 lattice gas, F2 single deviations of 6 crystals + two-slab stack, F3 molecules) x {default, bond_threshold 0.4/1.0, radii vdw/vdw_covalent/custom array} "
                "x seed-choice scripts (default + defect-atom / neighbour first choices; all first choices for <=8 atoms) x call histories %s on fresh clusters; every returned value is compared with "
                "get_dimensionality(cluster.get_atoms(), bond_threshold, radii=<per-atom radii used>). states = get_clusters executions, transitions = Cluster method calls" % (list(HISTORIES),),
        "nontrivial_rule": "clusters whose final index set is a strict subset of the structure (atoms were dropped by merge / localize / clean or belong to another cluster)",
        "bounds": {"structures": len(structs), "param_sets": len(PARAMS), "histories": len(HISTORIES)},
        "assumptions": ["differential oracle only: the public get_dimensionality is the reference (its own correctness is C09)", "parameter variations on base structures and a fixed slice of the deviations in the quick tier"],
        "exhaustive": True,
    }
