"""C13 - Cluster.get_dimensionality agrees with get_dimensionality of the cluster's atoms.

Every cluster produced by the C01 end-to-end exploration (families F1/F2/F3, where merging,
overlap resolution and outlier removal really drop atoms) x radii/bond-threshold variations x
call histories on the Cluster object; differential oracle = the public function on the cluster's
own atoms with the radii and threshold used for the clustering."""
import numpy as np

from mc import families, sbc_harness
from mc.engine import Result, short_hash
from mc.props import _sbcfam

PROPERTY = "C13"
NCHUNK = {"quick": 64, "thorough": 256}
PARAMS = [{}, {"bond_threshold": 0.4}, {"bond_threshold": 1.0}, {"radii": "vdw"}, {"radii": "vdw_covalent"}, {"radii": "custom"}]
HISTORIES = (("dim",), ("dim", "dim"), ("atoms", "cell", "dim", "dim"), ("len", "dim", "atoms", "dim"))


def shards(tier, seed):
    out = [("e2e", ch, NCHUNK[tier]) for ch in range(NCHUNK[tier])]
    out += [("seam", k, sp, pb) for k in ((2, 3) if tier == "quick" else (2, 3, 4)) for sp in (2.94, 3.24, 3.54) for pb in (True, False)]
    out += [("hist", h) for h in range(len(history_cases()))]
    return out


# ------------------------------------------------------------------ seam with real geometry
def seam_shard(shard, tier, seed, res):
    """The real _merge_clusters -> _localize_clusters -> _clean_clusters on real Cluster objects built over a real
    lattice-gas structure (every overlapping ordered pair of index subsets as input clusters); every output cluster's
    shortcut is compared with the public function."""
    import itertools
    import matid.geometry as g
    from matid.clustering.sbc import SBC
    from matid.clustering.cluster import Cluster
    from ase.data import covalent_radii

    _, k, spacing, periodic = shard
    pbc = (periodic,) * 3
    for sites, cols in families.lattice_gas((2, 2, 2), max_atoms=k, min_atoms=k):
        if any(cols):
            continue  # one species: the pipeline's species filter is C01's business
        if tier == "quick" and k >= 3 and (0, 0, 0) not in sites:
            continue  # quick tier: configurations containing the origin site
        at = families.gas_atoms(sites, cols, (29, 8), spacing, (2, 2, 2), pbc)
        if not periodic:
            at.set_cell(np.zeros((3, 3)))
        num = at.get_atomic_numbers()
        subsets = [c for m in range(1, k + 1) for c in itertools.combinations(range(k), m)]
        for rname in ("covalent", "custom"):
            radii = covalent_radii[num] * (np.array([1.0, 1.06, 0.95, 1.03][:k]) if rname == "custom" else 1.0)
            sysc = at.copy()
            if periodic:
                sysc.wrap()
            dist = g.get_distances(sysc, radii)
            for A, B in itertools.product(subsets, repeat=2):
                if not set(A) & set(B) or A == B:
                    continue
                for mt in (0.0, 0.5):
                    for bt in (0.65, 1.0):
                        if rname == "custom" and (mt, bt) not in ((0.5, 0.65), (0.0, 1.0)):
                            continue
                        res.counters["states"] += 1
                        res.counters["evaluations"] += 1
                        res.counters["transitions"] += 3
                        cl = [Cluster(list(x), {29}, None, system=sysc, distances=dist, radii=radii, bond_threshold=bt) for x in (A, B)]
                        sb = SBC()
                        try:
                            out = sb._merge_clusters(sysc, cl, mt, dist, bt)
                            out = sb._localize_clusters(sysc, out, 1, dist)
                            out = sb._clean_clusters(out, bt)
                        except Exception:
                            continue  # C01's business
                        for c in out:
                            try:
                                a, b = c.get_dimensionality(), c.get_dimensionality()
                            except Exception as e:
                                a = b = ("EXC", type(e).__name__)
                            sub = c.get_atoms()
                            ref = g.get_dimensionality(sub.copy(), bt, radii=np.asarray(radii)[c.indices].copy())
                            res.outcomes["seam dim=%s merged=%s" % (ref, c._merged)] += 1
                            if c._merged or len(c.indices) < len(set(A) | set(B)):
                                res.counters["nontrivial_distinct"] += 1
                            if a != ref or b != ref:
                                case = {"kind": "seam", "sites": [list(x) for x in sites], "spacing": spacing, "periodic": periodic, "radii": rname, "A": list(A), "B": list(B), "mt": mt, "bt": bt}
                                res.violation("c13.seam", {"case": short_hash(case)}, case,
                                              "clusters %s and %s of a %d-atom lattice gas (spacing %g, %s, radii %s) through merge(threshold %g)/localize/clean with bond_threshold %g: "
                                              "Cluster.get_dimensionality()=%r (repeat %r), function on the cluster atoms=%r" % (list(A), list(B), k, spacing, "periodic" if periodic else "finite", rname, mt, bt, a, b, ref))
    res.sample({"kind": "seam", "atoms": k, "spacing": spacing, "periodic": periodic})


# ------------------------------------------------------------------ histories on one SBC instance
def history_cases():
    return ["mutate:fcc-stretch", "mutate:slab-displace", "ABA:fcc100slab.TTF/graphene33", "ABA:stack/fcc222", "mutate:gas-move",
            "ABA:fcc100slab.TTF/fcc100slab.TTT", "ABA:rocksalt221/fcc222", "ABA:stack/stack.reordered"]


def history_shard(shard, tier, seed, res, tag="c13.history", with_dim=True):
    """Sequences of get_clusters calls on ONE SBC instance (incl. the same Atoms object modified in place between calls);
    every call's clusters and their dimensionality shortcuts are compared with a fresh SBC on a fresh copy."""
    from ase.build import bulk
    import ase.build
    from matid.clustering.sbc import SBC
    import matid.geometry as g

    name = history_cases()[shard[1]]
    base = {n: a for n, a, _ in families.f2_bases()}

    def summary(clusters, bt=0.65):
        out = []
        for c in clusters:
            out.append((tuple(sorted(int(i) for i in c.indices)), c.get_dimensionality() if with_dim else None, tuple(sorted(int(z) for z in c.species))))
        return sorted(out)

    def fresh(at):
        try:
            return summary(SBC().get_clusters(at.copy()))
        except Exception as e:  # an exception of a fresh call is the end-to-end part's business; here only the difference counts
            return [("EXC", repr(e)[:80])]

    seqs = []
    if name == "mutate:fcc-stretch":
        for pbc in ([True, True, False], [True, True, True], [False, False, False]):
            at = bulk("Cu", "fcc", a=4.5, cubic=True) * (3, 3, 3)
            ase.build.add_vacuum(at, 10)
            at.set_pbc(pbc)

            def mut(a):
                c = np.array(a.get_cell())
                c[2] *= 1.08
                a.set_cell(c, scale_atoms=True)
            seqs.append((at, mut))
    elif name == "mutate:slab-displace":
        at = base["fcc100slab.TTF"].copy()

        def mut(a):
            a.positions[a.positions[:, 2] > a.positions[:, 2].mean() + 0.5, 2] += 1.2
        seqs.append((at, mut))
    elif name == "mutate:gas-move":
        at = families.gas_atoms([(0, 0, 0), (1, 0, 0), (0, 1, 0), (1, 1, 0)], [0, 0, 0, 0], (29, 8), 2.6, (2, 2, 2), (True, True, True))

        def mut(a):
            a.positions[3] += [0.9, 0.9, 1.3]
        seqs.append((at, mut))
    if name.startswith("mutate"):
        for at, mut in seqs:
            inst = SBC()
            for step in range(3):
                res.counters["states"] += 1
                res.counters["evaluations"] += 1
                res.counters["transitions"] += 1
                try:
                    got = summary(inst.get_clusters(at))
                except Exception as e:
                    got = [("EXC", repr(e)[:80])]
                want = fresh(at)
                res.outcomes["hist ncl=%d" % len(got)] += 1
                if got != want:
                    case = {"kind": "hist", "name": name, "step": step}
                    res.violation(tag, {"name": name, "step": step, "pbc": str(at.get_pbc().tolist())}, dict(case, pbc=at.get_pbc().tolist()),
                                  "%s: call %d on one SBC instance (same Atoms object modified in place between calls) gives clusters/dimensionalities %s, a fresh SBC on a copy gives %s" % (name, step, [(len(x[0]), x[1]) if x[0] != "EXC" else x for x in got][:4], [(len(x[0]), x[1]) for x in want][:4]))
                    break
                mut(at)
    else:
        a, b = name.split(":")[1].split("/")
        def pick(n):
            if n in base:
                return base[n].copy()
            st = families.stack_base()
            if n == "stack.reordered":
                order = list(range(len(st)))[::-1]
                st = st[order]
            return st

        A, B = pick(a), pick(b)
        inst = SBC()
        for step, at in enumerate((A, B, A, B)):
            res.counters["states"] += 1
            res.counters["evaluations"] += 1
            res.counters["transitions"] += 1
            try:
                got = summary(inst.get_clusters(at))
            except Exception as e:
                got = [("EXC", repr(e)[:80])]
            want = fresh(at)
            if got != want:
                res.violation(tag, {"name": name, "step": step}, {"kind": "hist", "name": name, "step": step},
                              "%s: call %d on one SBC instance gives %s, a fresh SBC gives %s" % (name, step, [(len(x[0]), x[1]) if x[0] != "EXC" else x for x in got][:4], [(len(x[0]), x[1]) for x in want][:4]))
                break
    res.nontrivial.add("hist:" + name)
    res.sample({"kind": "history", "name": name})


def run_history(cluster, hist):
    outs = []
    for op in hist:
        if op == "dim":
            outs.append(cluster.get_dimensionality())
        elif op == "atoms":
            cluster.get_atoms()
        elif op == "cell":
            cluster.get_cell()
        elif op == "len":
            len(cluster)
    return outs


def check_structure(label, atoms, hint, tier, seed, res=None, only=None):
    import matid.geometry as g

    viol = []
    n = len(atoms)
    if label == "zero_cell_periodic":
        return viol
    is_base = (":" not in label) or label.startswith("mol:")
    k = sum(ord(c) for c in label)
    plist = PARAMS if (is_base or k % 5 == 0) else [{}, PARAMS[1 + k % 5]]
    for pr in plist:
        if only is not None and pr != only["params"]:
            continue
        params = _sbcfam.resolve_params(pr, atoms)
        ranks = _sbcfam.first_ranks(hint, n)
        scripts = [()] + [(r,) for r in ranks[1:(2 if tier == "quick" else 3)]]
        if n <= 8:
            scripts = [()] + [(r,) for r in range(1, n)]
        if only is not None:
            scripts = [tuple(only["script"])]
        for script in scripts:
            bt = params.get("bond_threshold", 0.65)
            for hi, hist in enumerate(HISTORIES):
                if tier == "quick" and hi != 1 + (k + len(script)) % 2:
                    continue
                try:
                    clusters, trace = sbc_harness.run_scripted(atoms, list(script), **params)
                except Exception as e:
                    break  # C01's business
                if res is not None:
                    res.counters["states"] += 1
                    res.counters["evaluations"] += 1
                    res.counters["transitions"] += len(hist) * len(clusters)
                for ci, c in enumerate(clusters):
                    try:
                        outs = run_history(c, hist)
                    except Exception as e:
                        viol.append((pr, script, hist, "exception", "Cluster.get_dimensionality raised %r" % (e,)))
                        continue
                    sub = c.get_atoms()
                    if isinstance(params.get("radii", "covalent"), str):
                        R = _sbcfam.radii_for(params, sub.get_atomic_numbers())
                    else:
                        R = np.asarray(params["radii"], float)[c.indices]
                    ref = g.get_dimensionality(sub.copy(), bt, radii=R.copy())
                    if res is not None:
                        res.outcomes["dim=%s cleaned=%s" % (ref, len(c.indices) < n)] += 1
                        if len(c.indices) < n:
                            res.nontrivial.add(short_hash([label, str(pr), list(script), ci]))
                    if any(o != ref for o in outs):
                        viol.append((pr, script, hist, "shortcut", "cluster %d (%d of %d atoms), calls %s: Cluster.get_dimensionality() returned %s, get_dimensionality(cluster.get_atoms(), %g, radii=<those used>) = %r" % (ci, len(c.indices), n, list(hist), outs, bt, ref)))
    return viol


def run_shard(shard, tier, seed):
    res = Result()
    if shard[0] == "seam":
        seam_shard(shard, tier, seed, res)
        return res
    if shard[0] == "hist":
        history_shard(shard, tier, seed, res)
        return res
    _, ch, nch = shard
    structs = _sbcfam.structure_list(tier, seed)
    for k in range(ch, len(structs), nch):
        label, atoms, hint = structs[k]
        res.counters["traces"] += 1
        viol = check_structure(label, atoms, hint, tier, seed, res)
        if k % 211 == 0:
            res.sample({"label": label, "atoms": len(atoms), "pbc": atoms.get_pbc().tolist()})
        seen = set()
        for pr, script, hist, kind, d in viol:
            key = (kind, str(pr))
            if key in seen:
                continue
            seen.add(key)
            pj = {kk: (vv if not isinstance(vv, np.ndarray) else "custom") for kk, vv in pr.items()}
            case = {"label": label, "atoms": families.atoms_case(atoms), "params": pj, "script": list(script), "history": list(hist), "tier": tier, "seed": seed}
            res.violation("c13." + kind, {"label": label, "params": str(pj), "script": str(list(script))}, case, "%s, params %s, seed choices %s: %s" % (label, pj, list(script), d))
    return res


def replay(case):
    if case.get("kind") == "seam":
        res = Result()
        seam_shard(("seam", len(case["sites"]), case["spacing"], case["periodic"]), "thorough", 0, res)
        c2 = {k: case[k] for k in ("kind", "sites", "spacing", "periodic", "radii", "A", "B", "mt", "bt")}
        return [v for v in res.violations if v["signature"]["case"] == short_hash(c2)]
    if case.get("kind") == "hist":
        res = Result()
        history_shard(("hist", history_cases().index(case["name"])), "thorough", 0, res)
        return [v for v in res.violations if v["signature"]["step"] == case["step"] and v["signature"].get("pbc", str(case.get("pbc"))) == str(case.get("pbc"))]
    atoms = families.atoms_from_case(case["atoms"])
    viol = check_structure(case["label"], atoms, None, "thorough", case.get("seed", 0), None, only={"params": case["params"], "script": case["script"]})
    out = []
    for pr, script, hist, kind, d in viol:
        pj = {kk: (vv if not isinstance(vv, np.ndarray) else "custom") for kk, vv in pr.items()}
        out.append({"signature": {"check": "c13." + kind, "label": case["label"], "params": str(pj), "script": str(list(script))}, "case": case, "reason": d})
    return out


def describe(tier, seed):
    structs = _sbcfam.structure_list(tier, seed)
    return {
        "rule": "every structure of the C01 families (F1 lattice gas, F2 single deviations of 6 crystals + two-slab stack, F3 molecules) x {default, bond_threshold 0.4/1.0, radii vdw/vdw_covalent/custom array} "
                "x seed-choice scripts (default + defect-atom / neighbour first choices; all first choices for <=8 atoms) x call histories %s on fresh clusters; every returned value is compared with "
                "get_dimensionality(cluster.get_atoms(), bond_threshold, radii=<per-atom radii used>). Seam: the real merge/localize/clean pipeline on real Cluster objects over every one-species 2x2x2 lattice-gas configuration with 2-%d atoms "
                "(3 spacings: bond gaps 0.30/0.60/0.90, periodic and finite, covalent and custom radii), every overlapping ordered pair of index subsets as input clusters, merge_threshold {0,0.5} x bond_threshold {0.65,1.0}. "
                "Histories: %d sequences of get_clusters calls on ONE SBC instance, incl. the same Atoms object modified in place between calls, vs a fresh SBC on a copy. "
                "states = get_clusters / pipeline executions, transitions = Cluster method calls / pipeline stages" % (list(HISTORIES), 3 if tier == "quick" else 4, len(history_cases())),
        "nontrivial_rule": "clusters whose final index set is a strict subset of the structure (atoms were dropped by merge / localize / clean or belong to another cluster)",
        "bounds": {"structures": len(structs), "param_sets": len(PARAMS), "histories": len(HISTORIES)},
        "assumptions": ["differential oracle only: the public get_dimensionality is the reference (its own correctness is C09)", "parameter variations on base structures and a fixed slice of the deviations in the quick tier"],
        "exhaustive": True,
    }
