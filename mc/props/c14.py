"""C14 - the built-in space-group tables agree with the International Tables.

Complete enumeration of the three finite tables (230 SPACE_GROUP_INFO rows,
1731 Wyckoff positions, 982 normalizers) against spglib's Hall-symbol database,
plus one anchored probe crystal per (group, Wyckoff letter) through spglib's
letter assignment and one crystal per group through the public getters."""
import itertools
import re

import numpy as np

from mc import sym
from mc.engine import Result, short_hash

PROPERTY = "C14"
TOL = 1e-6
FAMILY = {"triclinic": "a", "monoclinic": "m", "orthorhombic": "o", "tetragonal": "t", "trigonal": "h", "hexagonal": "h", "cubic": "c"}


def shards(tier, seed):
    out = []
    for lo in range(1, 231, 10):
        out.append(("groups", lo, min(lo + 9, 230)))
    return out


# ------------------------------------------------------------ expression parser
_TERM = re.compile(r"([+-]?)(\d+(?:/\d+)?)?([xyz]?)")


def parse_expr(e):
    """'-x+1/2' -> (coefficients of x,y,z, constant)."""
    e = e.replace(" ", "")
    coef = np.zeros(3)
    const = 0.0
    pos = 0
    if e == "":
        raise ValueError("empty expression")
    while pos < len(e):
        m = _TERM.match(e, pos)
        if not m or m.end() == pos:
            raise ValueError("cannot parse %r at %d" % (e, pos))
        sign = -1.0 if m.group(1) == "-" else 1.0
        numtxt, var = m.group(2), m.group(3)
        if numtxt is None and not var:
            raise ValueError("cannot parse %r at %d" % (e, pos))
        if numtxt is None:
            val = 1.0
        elif "/" in numtxt:
            a, b = numtxt.split("/")
            val = float(a) / float(b)
        else:
            val = float(numtxt)
        if var:
            coef["xyz".index(var)] += sign * val
        else:
            const += sign * val
        pos = m.end()
    return coef, const


# ------------------------------------------------------------ point identification
_NV = np.array(list(itertools.product((0, -1, 1), repeat=3)), float)
_pinv_cache = {}


def contains(info, translations, p, tol=1e-5):
    """Is the point p (fractional, standard setting) a point of the tabulated position?
    For every representative W.M_k + C_k (+ centring translation, + integer offsets in {-1,0,1}^3)
    the parameters are obtained by least squares and the residual is tested."""
    Ms, Cs = info["matrices"], info["constants"]
    trs = np.vstack([np.zeros((1, 3))] + [np.asarray(t, float).reshape(1, 3) for t in translations])
    p = np.asarray(p, float)
    for k in range(len(Ms)):
        M = np.asarray(Ms[k], float)
        key = (id(info), k)
        if key not in _pinv_cache:
            free = [i for i in range(3) if np.abs(M[i]).sum() > 0]
            A = M[free].T if free else None  # 3 x nfree :  A @ w = rr
            _pinv_cache[key] = (A, np.linalg.pinv(A) if free else None)
        A, Ap = _pinv_cache[key]
        r = (p[None, :] - np.asarray(Cs[k], float)[None, :] - trs) % 1.0  # n_t x 3
        rr = (r[:, None, :] + _NV[None, :, :]).reshape(-1, 3)
        if A is None:
            resid = rr
        else:
            resid = rr @ Ap.T @ A.T - rr
        if (np.abs(resid).max(1) < tol).any():
            return True
    return False


def multiplicity(info, translations):
    return len(info["expressions"]) * (len(translations) + 1)


def identify(sg, p):
    """Letters of the tabulated positions of smallest multiplicity containing p."""
    from matid.data.symmetry_data import WYCKOFF_SETS

    ws = WYCKOFF_SETS[sg]
    tr = ws["translations"]
    best, bm = [], None
    for l in sym.letters(sg):
        if contains(ws[l], tr, p):
            m = multiplicity(ws[l], tr)
            if bm is None or m < bm:
                best, bm = [l], m
            elif m == bm:
                best.append(l)
    return best


# ------------------------------------------------------------ the checks
def check_group(sg, res, seed):
    from matid.data.symmetry_data import SPACE_GROUP_INFO, WYCKOFF_SETS, CHIRALITY_PRESERVING_EUCLIDEAN_NORMALIZERS as NORM
    import spglib

    V = lambda check, sig, reason, obs=None, exp=None: res.violation(check, dict(sg=sg, **sig), dict(sg=sg, **sig, what=check), reason, obs, exp)
    st = sym.sgtype(sg)
    R, T = sym.ops(sg)
    opset = {(tuple(r.ravel()), tuple(np.round(t % 1.0, 6) % 1.0)) for r, t in zip(R, T)}

    def in_group(W, w):
        key = tuple(np.rint(W).astype(int).ravel())
        for r, t in zip(R, T):
            if tuple(r.ravel()) == key and np.abs(sym.fdiff(w, t)).max() < 1e-5:
                return True
        return False

    def table_digest():
        import hashlib

        h = hashlib.sha1()
        h.update(repr(sorted(SPACE_GROUP_INFO[sg].items())).encode())
        for l in sorted(WYCKOFF_SETS[sg]):
            w = WYCKOFF_SETS[sg][l]
            if l == "translations":
                h.update(np.asarray(w, float).tobytes())
            else:
                h.update(l.encode() + np.asarray(w["matrices"], float).tobytes() + np.asarray(w["constants"], float).tobytes() + repr(w["expressions"]).encode() + repr(sorted(w["variables"])).encode())
        for nz in NORM.get(sg, []):
            h.update(np.asarray(nz["transformation"], float).tobytes() + repr(sorted(nz["permutations"].items())).encode())
        return h.hexdigest()

    digest_before = table_digest()

    # ---- 1. SPACE_GROUP_INFO
    info = SPACE_GROUP_INFO[sg]
    system = sym.system_of(sg)
    res.counters["evaluations"] += 3
    res.counters["states"] += 1
    res.counters["transitions"] += 3
    if info["crystal_system"] != system:
        V("c14.info", {"field": "crystal_system"}, "SPACE_GROUP_INFO[%d].crystal_system=%r, International Tables: %r" % (sg, info["crystal_system"], system))
    cent = st.international_short[0]
    merge = lambda s: s[0] + ("S" if s[1] in "ABC" else s[1])
    want_bl = FAMILY[system] + cent
    if len(info["bravais_lattice"]) != 2 or merge(info["bravais_lattice"]) != merge(want_bl):
        V("c14.info", {"field": "bravais_lattice"}, "SPACE_GROUP_INFO[%d].bravais_lattice=%r, expected %r" % (sg, info["bravais_lattice"], merge(want_bl)))
    if info["pointgroup"] != st.pointgroup_international:
        V("c14.info", {"field": "pointgroup"}, "SPACE_GROUP_INFO[%d].pointgroup=%r, International Tables: %r" % (sg, info["pointgroup"], st.pointgroup_international))

    # ---- 2. Wyckoff positions
    ws = WYCKOFF_SETS[sg]
    trs = [np.asarray(t, float) for t in ws["translations"]]
    cen = sym.centring_translations(sg)
    res.counters["evaluations"] += 1
    ok_tr = len(trs) + 1 == len(cen) and all(any(np.abs(sym.fdiff(t, c)).max() < TOL for c in cen) for t in trs) and not any(np.abs(sym.fdiff(t, 0)).max() < TOL for t in trs)
    if not ok_tr:
        V("c14.translations", {}, "centring translations of group %d are %r, Hall database: %r" % (sg, [list(t) for t in trs], cen.tolist()))
    lets = sym.letters(sg)
    for letter in lets:
        w = ws[letter]
        res.counters["states"] += 1
        res.counters["evaluations"] += 1
        sigL = {"letter": letter}
        # expressions == matrices/constants
        bad = None
        vars_seen = set()
        try:
            for k, ex in enumerate(w["expressions"]):
                for comp in range(3):
                    coef, const = parse_expr(ex[comp])
                    for iv, v in enumerate("xyz"):
                        if coef[iv] != 0:
                            vars_seen.add(v)
                    if np.abs(coef - np.asarray(w["matrices"][k])[:, comp]).max() > 1e-9 or abs(const - w["constants"][k][comp]) > 1e-6:
                        bad = (k, comp, ex[comp], np.asarray(w["matrices"][k])[:, comp].tolist(), float(w["constants"][k][comp]))
                        raise StopIteration
        except StopIteration:
            pass
        except ValueError as e:
            bad = ("parse", str(e))
        res.counters["transitions"] += 3 * len(w["expressions"])
        if bad:
            V("c14.expr", sigL, "group %d letter %s: expression %r does not equal its matrix column %r / constant %r (representative %d, component %d)" % (sg, letter, bad[2], bad[3], bad[4], bad[0], bad[1]) if bad[0] != "parse" else "group %d letter %s: %s" % (sg, letter, bad[1]))
        elif set(w["variables"]) != vars_seen:
            V("c14.variables", sigL, "group %d letter %s: variables %r, expressions use %r" % (sg, letter, sorted(w["variables"]), sorted(vars_seen)))
        # closed orbit of the tabulated multiplicity
        mult = multiplicity(w, trs)
        for row in range(2):
            gen = sym.GEN[(seed + row) % 4]
            pts = []
            for M, C in zip(w["matrices"], w["constants"]):
                base = gen @ np.asarray(M, float) + C
                for t in [np.zeros(3)] + trs:
                    pts.append((base + t) % 1.0)
            pts = np.array(pts)
            orb = sym.orbit(sg, pts[0])
            res.counters["transitions"] += len(orb)
            distinct = all(np.abs(sym.fdiff(pts[i], pts[j])).max() > 1e-5 for i in range(len(pts)) for j in range(i))
            same = len(orb) == len(pts) and all(any(np.abs(sym.fdiff(o, q)).max() < 1e-5 for q in pts) for o in orb)
            if not (distinct and same):
                V("c14.orbit", sigL, "group %d letter %s: tabulated point set (%d points, distinct=%s) is not the orbit of its first representative under the standard-setting group (%d points)" % (sg, letter, len(pts), distinct, len(orb)))
                break
        # spglib's letter for a probe crystal
        try:
            at = sym.crystal(sg, [(letter, 29)], anchor=True, seed=seed)
            if len(at) <= 1200:
                ds = sym.spg_dataset(at, 1e-4)
                res.counters["transitions"] += 1
                if ds is None or ds.number != sg:
                    res.notes["probe_sg_mismatch"] += 1
                else:
                    iCu = [i for i, z in enumerate(at.get_atomic_numbers()) if z == 29]
                    spl = {ds.wyckoffs[i] for i in iCu}
                    P, p0 = np.array(ds.transformation_matrix), np.array(ds.origin_shift)
                    x = at.get_scaled_positions()[iCu[0]]
                    xs = (P @ x + p0) % 1.0
                    ident = identify(sg, xs)
                    if len(spl) != 1:
                        V("c14.letter", sigL, "group %d letter %s: spglib assigns several letters %r to one orbit" % (sg, letter, sorted(spl)))
                    elif len(ident) != 1:
                        res.notes["letter_ambiguous"] += 1
                    elif ident[0] != next(iter(spl)):
                        V("c14.letter", sigL, "group %d: a point that spglib calls Wyckoff letter %r lies on the tabulated position %r (probe built from tabulated letter %r)" % (sg, next(iter(spl)), ident[0], letter), ident[0], next(iter(spl)))
                    if np.allclose(P, np.eye(3), atol=1e-6) and np.abs(sym.fdiff(p0, 0)).max() < 1e-6:
                        res.counters["probe_identity"] += 1
                        if spl != {letter}:
                            V("c14.letter_direct", sigL, "group %d: probe on tabulated letter %r (identity standardisation) gets spglib letter %r" % (sg, letter, sorted(spl)))
                    else:
                        res.counters["probe_restandardised"] += 1
                # use of the tables by the analyser (parameter solving reads matrices/constants) must not alter them
                if len(at) <= 300:
                    try:
                        from matid.symmetry import SymmetryAnalyzer

                        an_ = SymmetryAnalyzer(at, 1e-3)
                        an_.get_wyckoff_sets_conventional(True)
                        an_.get_material_id()
                        res.counters["transitions"] += 1
                    except Exception:
                        pass  # C08's business
            else:
                res.notes["probe_too_large"] += 1
        except Exception as e:
            V("c14.probe_exception", sigL, "group %d letter %s: probe raised %r" % (sg, letter, e))
        res.nontrivial.add("w:%d:%s" % (sg, letter))

    # ---- 3. normalizers
    sohncke = sym.is_sohncke(sg)
    for idx, nz in enumerate(NORM.get(sg, [])):
        res.counters["states"] += 1
        res.counters["evaluations"] += 1
        sigN = {"index": idx}
        Tm = np.asarray(nz["transformation"], float)
        Rn, tn = Tm[:3, :3], Tm[:3, 3]
        res.nontrivial.add("n:%d:%d" % (sg, idx))
        if np.abs(Tm[3] - np.array([0, 0, 0, 1])).max() > 1e-12 or abs(abs(np.linalg.det(Rn)) - 1) > 1e-9:
            V("c14.normalizer.matrix", sigN, "group %d normalizer %d: not an affine unimodular map" % (sg, idx))
            continue
        Rinv = np.linalg.inv(Rn)
        bad = None
        for W, w in zip(R, T):
            W2 = Rn @ W @ Rinv
            w2 = Rn @ w + tn - W2 @ tn
            res.counters["transitions"] += 1
            if np.abs(W2 - np.rint(W2)).max() > 1e-9 or not in_group(W2, w2):
                bad = (W.tolist(), w.tolist())
                break
        if bad:
            V("c14.normalizer.closure", sigN, "group %d normalizer %d does not map the group onto itself (operation %r is sent outside the group)" % (sg, idx, bad))
        for v in (0, 1):
            cell = sym.cell_of(sg, v)
            G = cell @ cell.T
            if np.abs(Rn.T @ G @ Rn - G).max() > 1e-8 * np.abs(G).max():
                V("c14.normalizer.metric", sigN, "group %d normalizer %d does not preserve the metric of a generic %s lattice" % (sg, idx, system))
                break
        if sohncke and np.linalg.det(Rn) < 0:
            V("c14.normalizer.handedness", sigN, "group %d is a Sohncke (chiral) group but normalizer %d is improper (det = -1)" % (sg, idx))
        perm = nz["permutations"]
        if set(perm.keys()) != set(lets) or set(perm.values()) != set(lets):
            V("c14.normalizer.permutation_keys", sigN, "group %d normalizer %d: permutation is not a bijection of the group's letters" % (sg, idx))
        elif not bad:
            for letter in lets:
                p = sym.wyckoff_point(sg, letter, sym.GEN[seed % 4])
                p2 = (Rn @ p + tn) % 1.0
                ident = identify(sg, p2)
                res.counters["transitions"] += 1
                if len(ident) != 1:
                    res.notes["perm_ambiguous"] += 1
                    continue
                if ident[0] != perm[letter]:
                    V("c14.normalizer.permutation", sigN, "group %d normalizer %d sends a point of position %r onto position %r, table says %r" % (sg, idx, letter, ident[0], perm[letter]), ident[0], perm[letter])
                    break

    # ---- 4. public getters on one anchored crystal of the group
    try:
        from matid.symmetry import SymmetryAnalyzer

        at = sym.crystal(sg, [(lets[-1], 29)], anchor=True, seed=seed)
        if len(at) > 600:
            at = sym.crystal(sg, [(lets[-1], 29)], anchor=False, seed=seed)
        from mc import present
        from mc.present import S

        s0 = S(at.get_atomic_numbers(), at.get_positions(), np.array(at.get_cell()), (True, True, True))
        want = (sg, system, merge(want_bl), st.pointgroup_international)
        res.outcomes["%s/%s/%s" % want[1:]] += 1
        # the same crystal as given, as a symmetry-breaking supercell and in a sheared basis
        for plabel, ps in (("id", s0), ("super2@0", present.supercell(s0, np.diag([2, 1, 1]))), ("shear", present.basis_change(s0, np.array([[1, 0, 0], [1, 1, 0], [0, -1, 1]])))):
            if len(ps.num) > 600:
                continue
            an = SymmetryAnalyzer(ps.atoms(), 1e-3)
            got = (an.get_space_group_number(), an.get_crystal_system(), an.get_bravais_lattice(), an.get_point_group())
            res.counters["evaluations"] += 1
            res.counters["traces"] += 1
            if got != want:
                V("c14.getters", {"presentation": plabel}, "crystal of group %d (%s) reported as %r, International Tables: %r" % (sg, plabel, got, want), got, want)
    except Exception as e:
        V("c14.getters_exception", {}, "group %d: public getters raised %r" % (sg, e))

    # ---- 5. the tables are data: analysing crystals of the group must leave them unchanged
    if table_digest() != digest_before:
        V("c14.table_mutated", {}, "the tables of group %d changed while crystals of the group were being analysed (entries are modified in place by their users)" % sg)


def run_shard(shard, tier, seed):
    res = Result()
    _, lo, hi = shard
    for sg in range(lo, hi + 1):
        check_group(sg, res, seed)
    res.sample({"sg": lo, "what": "SPACE_GROUP_INFO row, every Wyckoff position and every normalizer of the group"})
    return res


def replay(case):
    res = Result()
    check_group(case["sg"], res, 0)
    want = {k: v for k, v in case.items() if k not in ("what",)}
    out = []
    for v in res.violations:
        if v["signature"]["check"] == case.get("what") and all(v["signature"].get(k) == val for k, val in want.items()):
            out.append(v)
    return out


def describe(tier, seed):
    return {
        "rule": "complete enumeration: 230 SPACE_GROUP_INFO rows; every Wyckoff position (expressions parsed and compared with matrices/constants, variable set, tabulated point set == orbit "
                "of the first representative under the Hall-database group for two generic parameter rows, spglib's letter for an anchored probe crystal); every normalizer "
                "(group closure n G n^-1 = G, metric of two generic lattices, handedness for Sohncke groups, letter permutation re-derived by mapping every position); "
                "one crystal per group through the public getters. states = table entries, transitions = elementary comparisons",
        "nontrivial_rule": "each Wyckoff position and each normalizer is one distinct non-trivial table entry",
        "bounds": {"groups": 230, "generic_rows": 2, "probe_symprec": 1e-4},
        "assumptions": ["International Tables = spglib's Hall-symbol database, first Hall number of each group (the setting spglib standardises to)",
                        "a point is identified with the tabulated position of smallest multiplicity that contains it; ambiguous identifications are counted, not judged"],
        "exhaustive": True,
    }
