"""C10 - the displacement tensor is a sound and, within range, exact MIC table.

Exhaustive enumeration of (cell, rotation, pbc mask, cutoff, atoms on a
fractional grid, exact / generic offset) on the real get_displacement_tensor
(C++ core compiled from the working tree), every table entry compared with a
brute-force lattice-sum minimum-image oracle."""
import itertools

import numpy as np

from mc import geom
from mc.engine import Result, short_hash

PROPERTY = "C10"
EPS = 1e-7  # band around the cutoff inside which the answer is undefined
TOL = 1e-9


def _cells(tier, seed):
    base = geom.base_cells()
    gr = geom.generic_rotations(seed, 2)
    rz = geom.rot_axis((0, 0, 1), 90)
    out = []
    if tier == "quick":
        for name, c in base.items():
            for rn, R in (("I", np.eye(3)), ("Rz90", rz), ("g0", gr[0])):
                out.append((name, rn, c @ R.T))
        for k, (name, c) in enumerate(geom.sheared_cells(1).items()):
            # alternate unrotated / generically rotated so that both occur for every shear magnitude
            rn, R = (("I", np.eye(3)), ("g0", gr[0]))[k % 2]
            out.append((name, rn, c @ R.T))
    else:
        for name, c in base.items():
            for rn, R in (("I", np.eye(3)), ("Rz90", rz), ("g0", gr[0]), ("g1", gr[1])):
                out.append((name, rn, c @ R.T))
        for name, c in geom.sheared_cells(2).items():
            for rn, R in (("I", np.eye(3)), ("g0", gr[0])):
                out.append((name, rn, c @ R.T))
    return out


def _cutoffs(cell):
    h = geom.heights(cell)
    return [
        ("None", None),
        ("inf", float("inf")),
        ("0.5", 0.5),
        ("1", 1.0),
        ("hmin", float(h.min())),
        ("1.5hmin", 1.5 * float(h.min())),
        ("hmax", float(h.max())),
        ("2.5hmax", 2.5 * float(h.max())),
    ]


def _position_sets(tier, seed):
    """Fractional coordinates of the atoms, all inside [0,1)."""
    off = geom.GENERIC_OFFSETS[seed % 4]
    sets = []
    if tier == "quick":
        g3 = geom.grid(3)
        g2 = geom.grid(2)
        fams = [("1@F3", [(p,) for p in g3[:2]])]
        fams.append(("2@F3", list(itertools.combinations(g3, 2))))
        fams.append(("3@F2", list(itertools.combinations(g2, 3))))
    else:
        g4 = geom.grid(4)
        g3 = geom.grid(3)
        g2 = geom.grid(2)
        fams = [("1@F4", [(p,) for p in g4[:2]])]
        fams.append(("2@F4", list(itertools.combinations(g4, 2))))
        fams.append(("3@F2", list(itertools.combinations(g2, 3))))
        fams.append(("4@F2", list(itertools.combinations(g2, 4))))
        # every third triple of F3 (a fixed, listed sub-family; the cap is reported in bounds)
        fams.append(("3@F3/3", list(itertools.combinations(g3, 3))[::3]))
    for name, fam in fams:
        for pts in fam:
            f = np.array(pts)
            sets.append((name, "exact", f))
            sets.append((name, "offset", f + off[None, :]))
    return sets


def shards(tier, seed):
    out = []
    for ci, (name, rn, cell) in enumerate(_cells(tier, seed)):
        for pbc in geom.PBCS:
            out.append((ci, pbc))
    return out


_cache = {}


def _setup(tier, seed):
    key = (tier, seed)
    if key not in _cache:
        _cache[key] = (_cells(tier, seed), _position_sets(tier, seed))
    return _cache[key]


def check_case(pos, cell, pbc, cutoff, L=None):
    """Runs the real function on one input and compares every entry with the
    brute-force oracle. Returns (violations [(kind, detail)], nontrivial flag,
    outcome tag, pairs compared, raw outputs)."""
    import matid.geometry as g

    pos = np.asarray(pos, float)
    cell = np.asarray(cell, float)
    n = len(pos)
    pbc_a = np.array(pbc, bool)
    disp, fac, dist = g.get_displacement_tensor(
        pos.copy(), cell.copy(), pbc_a, cutoff=cutoff, return_factors=True, return_distances=True
    )
    mic = geom.mic_table(pos, cell, pbc, L)
    dvec = pos[:, None, :] - pos[None, :, :]
    plain = np.sqrt((dvec**2).sum(-1))
    unbounded = cutoff is None or cutoff == float("inf")
    if unbounded:
        per = [np.linalg.norm(cell[k]) for k in range(3) if pbc[k]]
        bound = max(per) if per else 0.0
    else:
        bound = cutoff
    viol = []
    off = ~np.eye(n, dtype=bool)
    nontrivial = bool((mic < plain - 1e-9).any())
    if np.any(dist[~off] != 0) or np.any(disp[~off] != 0) or np.any(fac[~off] != 0):
        viol.append(("diagonal", "a diagonal entry is not zero"))
    fin = np.isfinite(dist) & off
    n_inf = int((~np.isfinite(dist) & off).sum())

    def first(mask):
        i, j = np.argwhere(mask)[0]
        return int(i), int(j)

    if fin.any():
        facf = np.where(fin[:, :, None], fac, 0.0)
        bad = fin & (~np.isfinite(fac).all(-1) | (facf != np.round(facf)).any(-1))
        if bad.any():
            i, j = first(bad)
            viol.append(("factor_integer", "factors[%d,%d]=%s not integer" % (i, j, fac[i, j])))
        else:
            bad = fin & (facf[:, :, ~pbc_a] != 0).any(-1)
            if bad.any():
                i, j = first(bad)
                viol.append(("factor_nonperiodic", "factors[%d,%d]=%s non-zero along a non-periodic axis" % (i, j, fac[i, j])))
            expect = dvec - facf @ cell
            dispf = np.where(fin[:, :, None], disp, 0.0)
            distf = np.where(fin, dist, 0.0)
            bad = fin & (np.abs(dispf - expect).max(-1) > TOL * (1 + np.abs(expect).max(-1)))
            if bad.any():
                i, j = first(bad)
                viol.append(("image", "disp[%d,%d]=%s is not r_i-r_j-f.cell=%s" % (i, j, disp[i, j], expect[i, j])))
            nrm = np.sqrt((dispf**2).sum(-1))
            bad = fin & (np.abs(nrm - distf) > TOL * (1 + distf))
            if bad.any():
                i, j = first(bad)
                viol.append(("norm", "dist[%d,%d]=%r != |disp|=%r" % (i, j, dist[i, j], nrm[i, j])))
            bad = fin & (
                ~fin.T
                | (np.where(fin.T, dist.T, 0.0) != distf)
                | (np.where(fin.T[:, :, None], disp.transpose(1, 0, 2), 0.0) != -dispf).any(-1)
                | (np.where(fin.T[:, :, None], fac.transpose(1, 0, 2), 0.0) != -facf).any(-1)
            )
            if bad.any():
                i, j = first(bad)
                viol.append(("antisymmetry", "entries (%d,%d)/(%d,%d) not antisymmetric/symmetric" % (i, j, j, i)))
            bad = fin & (distf < mic - TOL * (1 + mic))
            if bad.any():
                i, j = first(bad)
                viol.append(("shorter_than_mic", "dist[%d,%d]=%r < true MIC %r" % (i, j, dist[i, j], mic[i, j])))
            bad = fin & (mic <= bound - EPS) & (np.abs(distf - mic) > TOL * (1 + mic))
            if bad.any():
                i, j = first(bad)
                viol.append(("not_minimum", "dist[%d,%d]=%r but true MIC %r is within range %r" % (i, j, dist[i, j], mic[i, j], bound)))
            if not unbounded:
                bad = fin & (mic > cutoff + EPS)
                if bad.any():
                    i, j = first(bad)
                    viol.append(("beyond_cutoff_finite", "dist[%d,%d]=%r reported although MIC %r > cutoff %r" % (i, j, dist[i, j], mic[i, j], cutoff)))
    inf = ~np.isfinite(dist) & off
    if inf.any():
        if unbounded:
            i, j = first(inf)
            viol.append(("infinite_unbounded", "dist[%d,%d] infinite with unbounded cutoff" % (i, j)))
        else:
            bad = inf & (mic <= cutoff - EPS)
            if bad.any():
                i, j = first(bad)
                viol.append(("missing", "dist[%d,%d] infinite but true MIC %r <= cutoff %r" % (i, j, mic[i, j], cutoff)))
        bad = inf & (np.isfinite(disp).any(-1) | np.isfinite(np.asarray(fac, float)).any(-1))
        if bad.any():
            i, j = first(bad)
            viol.append(("inf_inconsistent", "dist[%d,%d] infinite but the displacement/factor entry is finite (%s / %s)" % (i, j, disp[i, j], fac[i, j])))
    outcome = "n%d inf%d nt%d" % (n, n_inf, int(nontrivial))
    return viol, nontrivial, outcome, n * (n - 1), (disp, fac, dist)


_bin = [None, False]


def _binary():
    if not _bin[1]:
        from mc import extshim

        _bin[1] = True
        try:
            _bin[0] = extshim.load_binary()
        except Exception:
            _bin[0] = None
    return _bin[0]


def run_shard(shard, tier, seed):
    ci, pbc = shard
    cells, possets = _setup(tier, seed)
    name, rn, cell = cells[ci]
    res = Result()
    binm = _binary()
    # one lattice-vector table per (cell, pbc): everything up to twice the cell diagonal
    L = geom.lattice_vectors(cell, pbc, 2 * geom.max_diagonal(cell) + 1e-6)
    import matid.geometry as g
    from ase import Atoms

    for cname, cutoff in _cutoffs(cell):
        for fam, kind, frac in possets:
            pos = frac @ cell
            res.counters["evaluations"] += 1
            res.counters["states"] += 1
            try:
                viol, nontriv, outcome, npairs, outs = check_case(pos, cell, pbc, cutoff, L)
            except Exception as e:  # the property promises a table, not an exception
                viol, nontriv, outcome, npairs, outs = [("exception", repr(e))], False, "exc", 0, None
            res.counters["transitions"] += npairs
            res.counters["traces"] += 1
            res.outcomes[outcome] += 1
            if nontriv:
                res.counters["nontrivial_distinct"] += 1  # inputs are distinct by construction
            if viol or res.counters["evaluations"] % 9973 == 1:
                case = {"cell": cell.tolist(), "pbc": list(pbc), "pos": pos.tolist(), "cutoff": cutoff,
                        "cellname": name, "rot": rn, "cutoff_name": cname, "family": fam, "kind": kind}
                res.sample(case)
                for k, detail in viol[:1]:
                    res.violation("c10." + k, {"case": short_hash(case)}, case, detail)
            # differential against the installed binary (stale-binary detector, not a property violation)
            if binm is not None and outs is not None and res.counters["evaluations"] % 16 == 0:
                n = len(pos)
                d = np.full((n, n, 3), np.inf)
                D = np.full((n, n), np.inf)
                f = np.full((n, n, 3), np.inf)
                try:
                    binm.get_displacement_tensor(d, D, f, pos, cell, np.array(pbc, bool), float("inf") if cutoff is None else cutoff, True, True)
                    same = np.array_equal(d, outs[0]) and np.array_equal(f, outs[1]) and np.array_equal(D, outs[2])
                except Exception:
                    same = False
                res.notes["bin_compared"] += 1
                if not same:
                    res.notes["src_bin_divergence"] += 1
        # Python wrapper get_distances (unbounded path) on the first few position sets of this shard
        if cname == "inf":
            for fam, kind, frac in possets[:40]:
                pos = frac @ cell
                n = len(pos)
                at = Atoms("H" * n, positions=pos, cell=cell, pbc=pbc)
                dd = g.get_distances(at)
                t = g.get_displacement_tensor(pos, cell, np.array(pbc), return_factors=True, return_distances=True) if any(pbc) else None
                res.counters["evaluations"] += 1
                res.counters["transitions"] += 1
                rr = g.get_radii("covalent", at.get_atomic_numbers())
                okk = np.array_equal(dd.dist_matrix_radii_mic, dd.dist_matrix_mic - (rr[:, None] + rr[None, :]))
                if t is not None:
                    okk = okk and np.array_equal(dd.disp_tensor_mic, t[0]) and np.array_equal(dd.disp_factors, t[1]) and np.array_equal(dd.dist_matrix_mic, t[2])
                else:
                    okk = okk and np.allclose(dd.dist_matrix_mic, geom.mic_table(pos, cell, pbc, np.zeros((1, 3))), atol=1e-12) and not dd.disp_factors.any()
                if not okk:
                    case = {"cell": cell.tolist(), "pbc": list(pbc), "pos": pos.tolist(), "cutoff": None, "via": "get_distances"}
                    res.violation("c10.get_distances", {"case": short_hash(case)}, case, "get_distances disagrees with get_displacement_tensor / radii subtraction")
    return res


def replay(case):
    out = []
    if case.get("via") == "get_distances":
        import matid.geometry as g
        from ase import Atoms

        pos = np.array(case["pos"])
        at = Atoms("H" * len(pos), positions=pos, cell=case["cell"], pbc=case["pbc"])
        dd = g.get_distances(at)
        rr = g.get_radii("covalent", at.get_atomic_numbers())
        ok = np.array_equal(dd.dist_matrix_radii_mic, dd.dist_matrix_mic - (rr[:, None] + rr[None, :]))
        if any(case["pbc"]):
            t = g.get_displacement_tensor(pos, np.array(case["cell"]), np.array(case["pbc"]), return_factors=True, return_distances=True)
            ok = ok and np.array_equal(dd.disp_tensor_mic, t[0]) and np.array_equal(dd.disp_factors, t[1]) and np.array_equal(dd.dist_matrix_mic, t[2])
        if not ok:
            out.append({"signature": {"check": "c10.get_distances", "case": short_hash(case)}, "case": case,
                        "reason": "get_distances disagrees with get_displacement_tensor / radii subtraction"})
        return out
    cutoff = case["cutoff"]
    if isinstance(cutoff, str):
        cutoff = float(cutoff)
    try:
        viol, _, _, _, outs = check_case(case["pos"], case["cell"], tuple(case["pbc"]), cutoff)
    except Exception as e:
        viol = [("exception", repr(e))]
    for k, detail in viol[:1]:
        out.append({"signature": {"check": "c10." + k, "case": short_hash(case)}, "case": case, "reason": detail})
    return out


def describe(tier, seed):
    cells = _cells(tier, seed)
    ps = _position_sets(tier, seed)
    fam = {}
    for f, k, _ in ps:
        fam[f] = fam.get(f, 0) + 1
    return {
        "rule": "every (cell x rotation x pbc mask x cutoff x atom set on a fractional grid x {exact, generic offset}) is "
                "executed on matid.geometry.get_displacement_tensor; states = distinct inputs, transitions = ordered atom "
                "pairs whose table entries were compared with the brute-force lattice-sum MIC oracle",
        "nontrivial_rule": "inputs in which at least one pair's true minimum image is not the n=0 image",
        "bounds": {"cells": len(cells), "pbc_masks": 8, "cutoffs": 8, "position_sets": len(ps), "families": fam,
                   "eps_band": EPS, "tolerance": TOL, "generic_row": seed % 4},
        "assumptions": [
            "atoms inside the cell (fractional coordinates in [0,1)), 1-4 atoms; positions on fractional grids and the same grids shifted by one generic offset",
            "matid/ext/ext.cpp (pybind11 bindings) is not compiled; geometry.cpp and celllist.cpp are, against a stand-in for py::array_t",
            "oracle: lattice sums over a reduced basis, box derived from the heights of that basis",
        ],
        "bin_differential": True,
        "exhaustive": True,
    }
