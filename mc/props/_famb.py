"""Shared runner for the family-B (symmetric crystal) properties C05-C08, C12, C15."""
import numpy as np

from mc import symfam, sym, present
from mc.engine import Result, short_hash

CAP = {"quick": 300, "thorough": 800}

CONFIG = {
    # property: (root kinds quick, root kinds thorough, analysis parts, needs presentations)
    "C05": (("1a", "2n", "2a"), ("1a", "1n", "2n", "2a"), ("conv",)),
    "C06": (("1a", "1n", "2n", "2a"), ("1a", "1n", "2n", "2s", "2a"), ("conv", "sets")),
    "C07": (("1a", "2n", "2s"), ("1a", "1n", "2n", "2s", "2a"), ("conv", "sets")),
    "C08": (("1a",), ("1a", "1n", "2n"), ("conv", "sets", "params")),
    "C12": (("1a", "2n"), ("1a", "1n", "2n", "2s"), ("conv", "sets", "prim", "orig")),
    "C15": (("1a", "1n"), ("1a", "1n", "2n"), ("conv",)),
}


def shards(prop, tier, seed):
    kinds = CONFIG[prop][0 if tier == "quick" else 1]
    step = 1
    return [("roots", lo, min(lo + step - 1, 230), kinds) for lo in range(1, 231, step)]


def _roots_in(lo, hi, kinds, tier, seed):
    return [d for d in symfam.root_list(tier, seed, kinds) if lo <= d[0] <= hi]


def judge(prop, s, rec, sg_ref, root_rec, desc):
    if prop == "C05":
        return symfam.oracle_c05(s, rec, sg_ref)
    if prop == "C06":
        v = symfam.oracle_c06(root_rec, rec)
        if not v and not root_rec["has_free"] and sym.system_of(root_rec["sg"]) in ("cubic", "tetragonal", "hexagonal", "trigonal"):
            v = symfam.oracle_c06_cell(root_rec, rec)
        return v
    if prop == "C07":
        return symfam.oracle_c07(rec)[0]
    if prop == "C08":
        return symfam.oracle_c08(rec)
    if prop == "C12":
        return symfam.oracle_c12(rec, sg_ref)
    if prop == "C15":
        return symfam.oracle_c15(rec)
    raise KeyError(prop)


def explore_root(prop, desc, tier, seed, res=None, only=None):
    """Explore one root: returns (status, [(label, kind, detail)])."""
    parts = CONFIG[prop][2]
    s = symfam.build_root(desc, seed, CAP[tier])
    if s is None:
        return "too_large", []
    sg_ref = symfam.well_conditioned(s)
    if sg_ref is None:
        return "ill_conditioned", []
    out = []
    root_rec = None
    pres = symfam.presentations3d(s, tier, seed)
    if prop == "C06" and len(desc[1]) == 2 and desc[1][0][1] != desc[1][1][1]:
        # "swapping the two rock-salt sublattices": the same letters with the species exchanged.  It is the same
        # crystal exactly when a proper lattice-preserving motion maps one standardized structure onto the other,
        # which is decided independently (spglib standardisation + exhaustive congruence search).
        sw = symfam.build_root((desc[0], ((desc[1][0][0], desc[1][1][1]), (desc[1][1][0], desc[1][0][1])), desc[2]), seed, CAP[tier])
        if sw is not None:
            da, db = sym.spg_dataset(s.atoms(), symfam.TOL), sym.spg_dataset(sw.atoms(), symfam.TOL)
            if da is not None and db is not None and da.number == db.number and np.abs(symfam.cellpar(np.array(da.std_lattice)) - symfam.cellpar(np.array(db.std_lattice))).max() < 1e-4:
                if symfam.congruent(np.array(da.std_positions), np.array(da.std_types), np.array(db.std_positions), np.array(db.std_types), np.array(db.std_lattice), 10 * symfam.TOL) == "proper":
                    pres.append(("species.swapped", sw))
    for label, p in pres:
        if only is not None and label not in ("id", only):
            continue
        if res is not None:
            res.counters["states"] += 1
            res.counters["evaluations"] += 1
            res.counters["transitions"] += 0 if label == "id" else 1
        try:
            rec = symfam.analyse(p, parts=parts)
        except Exception as e:
            if prop in ("C05", "C06", "C07", "C08", "C12", "C15"):
                out.append((label, "exception", "analysis of a well-conditioned crystal raised %r" % (e,)))
            continue
        if label == "id":
            root_rec = rec
        if root_rec is None:
            continue
        try:
            v = judge(prop, p, rec, sg_ref, root_rec, desc)
        except Exception as e:
            import traceback

            raise RuntimeError("oracle error on %r / %s: %s" % (desc, label, traceback.format_exc()))
        for kind, detail in v[:1]:
            out.append((label, kind, detail))
    status = "sg%d%s" % (sg_ref, "" if sg_ref == desc[0] else "(super)")
    if res is not None and root_rec is not None:
        res.outcomes["%s chiral=%s free=%s" % (root_rec["system"], root_rec["chiral"], root_rec["has_free"])] += 1
    return status, out


def run_shard(prop, shard, tier, seed):
    _, lo, hi, kinds = shard
    res = Result()
    for desc in _roots_in(lo, hi, kinds, tier, seed):
        status, viol = explore_root(prop, desc, tier, seed, res)
        res.counters["traces"] += 1
        if status in ("too_large", "ill_conditioned"):
            res.counters[status] += 1
            continue
        if status.endswith("(super)"):
            res.counters["supergroup_roots"] += 1
        res.nontrivial.add("%d:%s:%s" % (desc[0], "+".join("%s%d" % o for o in desc[1]), desc[2]))
        case0 = {"desc": [desc[0], [list(o) for o in desc[1]], desc[2]], "tier": tier, "seed": seed}
        if res.counters["traces"] % 97 == 1:
            res.sample(case0)
        seen = set()
        for label, kind, detail in viol:
            if (label, kind) in seen:
                continue
            seen.add((label, kind))
            case = dict(case0, presentation=label)
            res.violation("%s.%s" % (prop.lower(), kind), {"sg": desc[0], "occupied": "+".join("%s%d" % o for o in desc[1]), "anchor": desc[2], "presentation": label}, case,
                          "group %d, %s%s, presentation %s: %s" % (desc[0], "+".join("%s:%d" % o for o in desc[1]), " +anchor" if desc[2] else "", label, detail))
    return res


def replay(prop, case):
    d = case["desc"]
    desc = (d[0], tuple((o[0], o[1]) for o in d[1]), d[2])
    status, viol = explore_root(prop, desc, case.get("tier", "quick"), case.get("seed", 0), None, only=case.get("presentation"))
    out = []
    for label, kind, detail in viol:
        if label != case.get("presentation"):
            continue
        out.append({"signature": {"check": "%s.%s" % (prop.lower(), kind), "sg": desc[0], "occupied": "+".join("%s%d" % o for o in desc[1]), "anchor": desc[2], "presentation": label},
                    "case": case, "reason": detail})
    return out


def describe(prop, tier, seed, extra_rule="", extra_assumptions=()):
    kinds = CONFIG[prop][0 if tier == "quick" else 1]
    n = len(symfam.root_list(tier, seed, kinds))
    labels = [l for l, _ in symfam.presentations3d(symfam.build_root((221, (("a", 29),), True), seed, 10**6), tier, seed)]
    return {
        "rule": "roots = one crystal per listed (space group, occupied Wyckoff letters, species pattern, anchor) built from the Hall-database operations; every root is analysed and "
                "re-presented by every generator %s (depth 1); the oracle is evaluated in every reached state. states = presentations analysed, transitions = generator applications. %s" % (labels[1:], extra_rule),
        "nontrivial_rule": "distinct well-conditioned roots actually explored (root kinds %s)" % (kinds,),
        "bounds": {"root_kinds": list(kinds), "roots_listed": n, "atom_cap": CAP[tier], "symmetry_tol": symfam.TOL, "generators": labels[1:], "generic_row": seed % 4},
        "assumptions": ["crystals larger than the atom cap are skipped and counted (too_large)", "roots whose space group is not stable over tol/10..tol*10 in an independent spglib search are discarded and counted (ill_conditioned)",
                        "root kinds: 1a = one occupied position + general-position anchor, 1n/2n = one/two occupied positions without anchor (possibly a supergroup), 2s = one letter occupied twice by one species with different parameters, 2a = two positions + anchor"] + list(extra_assumptions),
        "exhaustive": True,
    }
