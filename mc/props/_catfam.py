"""Catalogue exploration shared by C02 and C04: (material x {bulk, facet x layers x pbc}) roots,
presentations (noise fields, rigid motions, permutation) and scripted seed choices."""
import numpy as np

from mc import catalog, geom, present, sbc_harness
from mc.present import S

QUICK_MATERIALS = ["Cu", "Al", "Fe", "Mo", "Mg", "Ti", "Si", "C", "NaCl", "ZnS", "NiAl", "CaF2", "ZnO", "SrTiO3", "TiO2"]


def materials(tier):
    names = [e[0] for e in catalog.elements()] + list(catalog.compounds())
    ok = [n for n in names if catalog.precondition(n) is None]
    if tier == "quick":
        return [n for n in QUICK_MATERIALS if n in ok]
    return ok


def roots(tier):
    """(material, variant) with variant = ('bulk',) or ('slab', miller, layers, pbc_z)."""
    out = []
    for name in materials(tier):
        _, kind = catalog.conventional(name)
        out.append((name, ("bulk",)))
        for m in catalog.facets(kind):
            for layers in (3,) if tier == "quick" else (3, 4):
                for pz in (False, True):
                    out.append((name, ("slab", m, layers, pz)))
    # slabs with exactly 3 / 4 ATOMIC layers from the dedicated ASE builders (the other reading of "3-4 layers")
    thin = {"fcc": ("fcc100", "fcc110", "fcc111"), "bcc": ("bcc100", "bcc110", "bcc111"), "hcp": ("hcp0001",), "diamond": ("diamond100", "diamond111")}
    for name in materials(tier):
        _, kind = catalog.conventional(name)
        for b in thin.get(kind, ()):
            for nl in (3,) if tier == "quick" else (3, 4):
                for pz in (False,) if tier == "quick" else (False, True):
                    out.append((name, ("thin", b, nl, pz)))
    return out


def thin_slab(name, builder, nl, pz):
    import ase.build

    fn = getattr(ase.build, builder)
    one = fn(name, size=(1, 1, nl), vacuum=7.0)
    c = np.array(one.get_cell())
    ha = np.linalg.norm(np.cross(c[0], c[1])) / np.linalg.norm(c[1])
    hb = np.linalg.norm(np.cross(c[0], c[1])) / np.linalg.norm(c[0])
    s = fn(name, size=(int(np.ceil(12.5 / ha)), int(np.ceil(12.5 / hb)), nl), vacuum=7.0)
    s.set_pbc([True, True, bool(pz)])
    return s


def build(name, variant):
    if variant[0] == "thin":
        return thin_slab(name, variant[1], variant[2], variant[3]), 2
    if variant[0] == "bulk":
        return catalog.bulk_supercell(name), 3
    _, m, layers, pz = variant
    return catalog.slab(name, tuple(m), layers, pz), 2


def presentations(at, tier, seed):
    """(label, Atoms). Noise first (property: up to 0.05 A per atom), then rigid motions and reordering."""
    n = len(at)
    s = S(at.get_atomic_numbers(), at.get_positions(), np.array(at.get_cell()), at.get_pbc())
    gr = geom.generic_rotations(seed, 2)
    out = [("id", s)]

    def noisy(row, amp):
        return S(s.num, s.pos + catalog.noise_field(n, row, amp), s.cell, s.pbc)

    out.append(("noise%d@0.05" % (seed % 4), noisy(seed % 4, 0.05)))
    out.append(("noise%d@0.02" % ((seed + 1) % 4), noisy((seed + 1) % 4, 0.02)))
    out.append(("rot.g0", present.rotate(s, gr[0])))
    out.append(("trans", present.translate(s, np.array([1.7, -2.3, 0.9]))))
    out.append(("perm.rev", present.permute(s, list(range(n))[::-1])))
    if not all(s.pbc):
        # rigid translation that leaves the cell along the non-periodic direction (no wrapping is possible there)
        k = [i for i in range(3) if not s.pbc[i]][0]
        out.append(("trans.out", present.translate(s, -1.3 * s.cell[k] + np.array([0.4, 0.3, 0.0]))))
    if tier != "quick":
        for row in range(4):
            for amp in (0.02, 0.05):
                lab = "noise%d@%g" % (row, amp)
                if lab not in [l for l, _ in out]:
                    out.append((lab, noisy(row, amp)))
        out.append(("rot.g1+noise", present.rotate(noisy(2, 0.05), gr[1])))
        out.append(("perm.roll+trans", present.translate(present.permute(s, list(range(1, n)) + [0]), np.array([-4.0, 0.6, 3.3]), rewrap=True)))
        kick = s.pos.copy()
        kick[n // 2] += np.array([0.03, -0.03, 0.03])
        out.append(("kick", S(s.num, kick, s.cell, s.pbc)))
    return out


def seed_scripts(n, tier):
    ranks = sorted({0, n // 2, n - 1} if tier == "quick" else {0, n // 4, n // 2, 3 * n // 4, n - 1, 1})
    return [(r,) if r else () for r in ranks]
