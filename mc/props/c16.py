"""C16 - periodic neighbour search and position matching are complete and exact.

Exhaustive over (cell incl. degenerate ones, pbc mask, 1-3 atoms on grids,
extension x cutoff in both orders, a grid of query points) on the real
get_extended_system / get_cell_list().get_neighbours_for_position / get_matches
/ get_matches_simple; reference = brute-force image enumeration."""
import itertools

import numpy as np
from ase import Atoms

from mc import geom
from mc.engine import Result, short_hash

PROPERTY = "C16"
EPS = 1e-7
TOL = 1e-9


def _cells(tier, seed):
    base = geom.base_cells()
    gr = geom.generic_rotations(seed, 2)
    out = [
        ("cubic4", base["cubic4"]),
        ("needle", base["needle"]),
        ("tric", base["tric"]),
        ("shear+2-1+1", geom.shear_matrix(2, -1, 1) @ (np.eye(3) * 4.0)),
        ("plate.g0", base["plate"] @ gr[0].T),
    ]
    if tier != "quick":
        out += [
            ("cubic2", base["cubic2"]),
            ("shear-1+2+0.g1", (geom.shear_matrix(-1, 2, 0) @ (np.eye(3) * 4.0)) @ gr[1].T),
            ("shear+1+1-2", geom.shear_matrix(1, 1, -2) @ (np.eye(3) * 4.0)),
            ("tric.g0", base["tric"] @ gr[0].T),
        ]
    # degenerate cells (zero vectors are non-periodic); extended system only
    t = base["tric"]
    deg = [
        ("deg:c=0", np.array([t[0], t[1], [0, 0, 0]])),
        ("deg:a=0", np.array([[0, 0, 0], t[1], t[2]])),
        ("deg:b=0.g0", np.array([t[0], [0, 0, 0], t[2]]) @ gr[0].T),
        ("deg:b=c=0", np.array([t[0], [0, 0, 0], [0, 0, 0]])),
        ("deg:a=b=0", np.array([[0, 0, 0], [0, 0, 0], t[2]])),
        ("deg:all0", np.zeros((3, 3))),
    ]
    return out, deg


def _atom_sets(tier, seed):
    off = geom.GENERIC_OFFSETS[seed % 4]
    g3, g2 = geom.grid(3), geom.grid(2)
    sets = [np.array([g3[0]]), np.array([g3[13]]), np.array([g3[26]])]
    if tier == "quick":
        pairs = [(g3[0], q) for q in g3[1::2]] + [(g3[13], g3[14]), (g3[13], g3[22])]
        trips = [t3 for t3 in itertools.combinations(g2, 3) if np.array_equal(t3[0], g2[0])][::3]
    else:
        pairs = [(g3[0], q) for q in g3[1:]] + [(g3[13], q) for q in g3 if not (np.array_equal(q, g3[13]) or np.array_equal(q, g3[0]))]
        trips = list(itertools.combinations(g2, 3))
    sets += [np.array(p) for p in pairs] + [np.array(t3) for t3 in trips]
    out = []
    for f in sets:
        out.append(("exact", f))
        out.append(("offset", f + off[None, :]))
    return out


def _ext_cut(cell, tier):
    h = geom.heights(cell)
    hm = float(h.min())
    vals = [0.5, 1.0, hm, 1.5 * hm]
    if tier != "quick":
        vals += [0.2, 4.0]
    pairs = []
    for e in vals:
        for c in vals:
            if tier == "quick" and not (e == c or (e, c) in ((0.5, 1.5 * hm), (1.5 * hm, 0.5), (1.0, hm), (hm, 1.0))):
                continue
            if 0.2 in (e, c) and max(e, c) > 0.5:
                continue  # a 0.2 A cutoff with a large extension means ~10^5-10^6 bins per cell list: explored with small partners only
            pairs.append((e, c))
    return pairs


def _queries(cell, frac_atoms, seed, tier="thorough"):
    off = geom.GENERIC_OFFSETS[(seed + 1) % 4]
    g = (0.0, 0.25, 0.5, 0.75) if tier != "quick" else (0.0, 1 / 3, 2 / 3)
    pts = [np.array(f) for f in itertools.product(g, repeat=3)]
    pts += [np.array(f, float) for f in itertools.product((0.0, 1.0), repeat=3)]
    pts += [f for f in frac_atoms]
    for i in range(len(frac_atoms)):
        for j in range(i + 1, len(frac_atoms)):
            pts.append((frac_atoms[i] + frac_atoms[j]) / 2)
    q = np.array(pts)
    q = np.vstack([q, np.clip(q + off[None, :], 0, 1)])
    return q @ cell


def shards(tier, seed):
    full, deg = _cells(tier, seed)
    nch = 3 if tier == "quick" else 8
    out = [("full", ci, pbc, ch, nch) for ci in range(len(full)) for pbc in geom.PBCS for ch in range(nch)]
    for di, (name, c) in enumerate(deg):
        zero = [not c[k].any() for k in range(3)]
        for pbc in geom.PBCS:
            if any(pbc[k] and zero[k] for k in range(3)):
                continue
            out.append(("deg", di, pbc, 0, 1))
    return out


# ---------------------------------------------------------------- reference
def completed(cell):
    """Replace zero rows by unit vectors orthogonal to the others (only used to measure in-plane distances)."""
    cell = np.array(cell, float)
    zero = [not cell[k].any() for k in range(3)]
    nz = [cell[k] for k in range(3) if not zero[k]]
    if len(nz) == 3:
        return cell, zero
    # orthonormal complement of span(nz)
    basis = []
    for v in nz:
        w = v.copy()
        for b in basis:
            w = w - (w @ b) * b
        basis.append(w / np.linalg.norm(w))
    comp = []
    for e in np.eye(3):
        w = e.copy()
        for b in basis + comp:
            w = w - (w @ b) * b
        if np.linalg.norm(w) > 1e-6:
            comp.append(w / np.linalg.norm(w))
        if len(basis) + len(comp) == 3:
            break
    it = iter(comp)
    for k in range(3):
        if zero[k]:
            cell[k] = next(it)
    return cell, zero


def dist_to_cell(p, cell, pbc):
    """Distance from p to the cell, ignoring the directions of zero cell vectors
    (the structure is unbounded there)."""
    cc, zero = completed(cell)
    if any(zero):
        fr = np.linalg.solve(cc.T, p)
        for k in range(3):
            if zero[k]:
                fr[k] = 0.5
        p = fr @ cc
    return geom.dist_point_cell(p, cc)


def dists_to_cell(P, cell, pbc):
    cc, zero = completed(cell)
    P = np.asarray(P, float)
    if any(zero):
        fr = np.linalg.solve(cc.T, P.T).T
        for k in range(3):
            if zero[k]:
                fr[:, k] = 0.5
        P = fr @ cc
    return geom.dist_points_cell(P, cc)


def all_images(pos, cell, pbc, reach):
    """Every image (index, factor, position) with |factor_k| <= reach_k on periodic axes."""
    rng = [range(-reach[k], reach[k] + 1) if pbc[k] else (0,) for k in range(3)]
    fac = np.array(list(itertools.product(*rng)), float)
    n = len(pos)
    idx = np.repeat(np.arange(n), len(fac))
    F = np.tile(fac, (n, 1))
    P = pos[idx] + F @ cell
    return idx, F, P


def reach_for(cell, pbc, D):
    cc, zero = completed(cell)
    h = geom.heights(cc)
    return [int(np.ceil(D / h[k])) + 1 if pbc[k] else 0 for k in range(3)]


# ---------------------------------------------------------------- checks
def check_extended(num, pos, cell, pbc, ext):
    import matid.geometry as g

    at = Atoms(numbers=num, positions=pos, cell=cell, pbc=pbc)
    es = g.get_extended_system(at, ext)
    P = np.asarray(es.positions)
    I = np.asarray(es.indices)
    F = np.asarray(es.factors)
    Z = np.asarray(es.atomic_numbers)
    n = len(pos)
    viol = []
    if len(P) < n or not (np.array_equal(I[:n], np.arange(n)) and np.array_equal(P[:n], pos) and not F[:n].any()):
        viol.append(("originals_first", "the first rows are not the original atoms in order with zero offset"))
        return viol, len(P)
    if np.any(F != np.round(F)) or np.any(I < 0) or np.any(I >= n):
        viol.append(("row_integer", "non-integer offset or index out of range"))
        return viol, len(P)
    if np.abs(F[:, ~np.array(pbc)]).sum() != 0:
        viol.append(("offset_nonperiodic", "non-zero offset along a non-periodic axis"))
    if np.abs(P - (pos[I] + F @ cell)).max() > TOL * (1 + np.abs(P).max()):
        viol.append(("row_position", "a row's position is not original + offset.cell"))
    if not np.array_equal(Z, np.asarray(num)[I]):
        viol.append(("row_species", "a row's atomic number is not that of its original"))
    keys = set(map(tuple, np.column_stack([I, F]).astype(int).tolist()))
    if len(keys) != len(P):
        viol.append(("duplicate", "an (index, offset) pair occurs more than once"))
    # completeness
    idx, FF, PP = all_images(pos, cell, pbc, reach_for(cell, pbc, ext))
    dc = dists_to_cell(PP, cell, pbc)
    for t in np.nonzero(dc <= ext - EPS)[0]:
        if (int(idx[t]),) + tuple(int(x) for x in FF[t]) not in keys:
            viol.append(("missing_image", "image of atom %d at offset %s is %.6f from the cell (extension %r) but absent" % (idx[t], FF[t].tolist(), dc[t], ext)))
            break
    return viol, len(P)


def check_queries(num, pos, cell, pbc, ext, cut, Q, tols, res=None, binm=None):
    """Neighbour queries and matching on one cell list."""
    import matid.geometry as g

    pbc_a = np.array(pbc, bool)
    cl = g.get_cell_list(pos.copy(), cell.copy(), pbc_a, ext, cut)
    clb = binm.get_cell_list(pos.copy(), cell.copy(), pbc_a, ext, cut) if binm is not None else None
    reach = reach_for(cell, pbc, max(ext, cut) + 0.2)
    idx, FF, PP = all_images(pos, cell, pbc, reach)
    dcell = dists_to_cell(PP, cell, pbc)
    required = dcell <= ext - EPS
    viol = []
    nq = 0
    for q in Q:
        nq += 1
        r = cl.get_neighbours_for_position(q[0], q[1], q[2])
        d_all = np.sqrt(((q[None, :] - PP) ** 2).sum(1))
        ri = np.asarray(r.indices_original, int)
        rf = np.asarray(r.factors, float).reshape(-1, 3)
        rd = np.asarray(r.distances, float)
        rdisp = np.asarray(r.displacements, float).reshape(-1, 3)
        if len(ri):
            if np.any(rf != np.round(rf)) or np.any(ri < 0) or np.any(ri >= len(pos)):
                viol.append(("q_row", "query returned a non-integer offset / bad index"))
                break
            p_ret = pos[ri] + rf @ cell
            if np.abs(rdisp - (q[None, :] - p_ret)).max() > TOL * (1 + np.abs(p_ret).max()):
                viol.append(("q_displacement", "returned displacement is not query - (original + offset.cell)"))
                break
            if np.abs(rd - np.sqrt((rdisp**2).sum(1))).max() > TOL * (1 + rd.max()) or np.abs(np.asarray(r.distances_squared) - rd**2).max() > 1e-9 * (1 + rd.max() ** 2):
                viol.append(("q_distance", "returned distance is not the norm of the displacement"))
                break
            if rd.max() > cut + EPS:
                viol.append(("q_beyond", "a returned neighbour is at %r > cutoff %r" % (rd.max(), cut)))
                break
            if np.abs(rf[:, ~pbc_a]).sum() != 0:
                viol.append(("q_nonperiodic", "returned offset non-zero along a non-periodic axis"))
                break
        got = set(map(tuple, np.column_stack([ri, rf]).astype(int).tolist())) if len(ri) else set()
        if len(got) != len(ri):
            viol.append(("q_duplicate", "an image was returned twice"))
            break
        need = np.nonzero(required & (d_all <= cut - EPS))[0]
        miss = [k for k in need if (int(idx[k]),) + tuple(int(x) for x in FF[k]) not in got]
        if miss:
            k = miss[0]
            viol.append(("q_missing", "image of atom %d at offset %s is %.6f from the query (cutoff %r) and %.6f from the cell (extension %r) but was not returned" % (idx[k], FF[k].tolist(), d_all[k], cut, dcell[k], ext)))
            break
        if clb is not None and nq % 4 == 0:
            rb = clb.get_neighbours_for_position(q[0], q[1], q[2])
            if res is not None:
                res.notes["bin_compared"] += 1
                if list(rb.indices) != list(r.indices) or list(rb.distances) != list(r.distances):
                    res.notes["src_bin_divergence"] += 1
    if viol:
        return viol, nq
    # ---- matching
    at = Atoms(numbers=num, positions=pos, cell=cell, pbc=pbc)
    other = 8 if 8 not in num else 9
    for tol in tols:
        # query points: in-cell points plus the same points pushed out of the cell by up to (ext - tol)
        QQ = Q
        push = min(ext - tol, 0.15)
        if push > 1e-3:
            centre = 0.5 * cell.sum(0)
            dirs = Q - centre[None, :]
            nrm = np.linalg.norm(dirs, axis=1)
            nrm[nrm == 0] = 1
            QQ = np.vstack([Q, Q + dirs / nrm[:, None] * push * 0.9])
        want_num = [num[k % len(num)] if k % 3 else other for k in range(len(QQ))]
        matches, subs, vacs, copies = g.get_matches(at, cl, QQ.copy(), list(want_num), tol)
        wrapped_ok = tol <= min(ext, cut) + 1e-12
        nv = 0
        for k, q in enumerate(QQ):
            d_all = np.sqrt(((q[None, :] - PP) ** 2).sum(1))
            # only images that the cell list is obliged to hold and to return
            usable = required | (dcell <= ext + EPS)
            dmin = d_all.min()
            if abs(dmin - tol) <= EPS or not wrapped_ok:
                if matches[k] is None and subs[k] is None:
                    nv += 1
                continue
            # if the nearest image is not one the cell list must contain, the answer is not defined by the statement
            kmin = np.nonzero(d_all <= dmin + 1e-9)[0]
            if not required[kmin].all():
                if matches[k] is None and subs[k] is None:
                    nv += 1
                continue
            m, sb = matches[k], subs[k]
            if dmin > tol:
                if m is not None or sb is not None:
                    viol.append(("m_false_hit", "position %d: nothing within tolerance %r (nearest %.6f) but a match/substitution was reported" % (k, tol, dmin)))
                    break
                nv += 1
                exp_off = np.floor(np.linalg.solve(completed(cell)[0].T, q) + 0.0)
                continue
            ties = {(int(idx[t]),) + tuple(int(x) for x in FF[t]) for t in kmin}
            if m is None and sb is None:
                viol.append(("m_missed", "position %d: nearest image at %.6f <= tolerance %r but reported as vacancy" % (k, dmin, tol)))
                break
            hit = m if m is not None else sb.index
            key = (int(hit),) + tuple(int(x) for x in copies[k])
            if key not in ties:
                viol.append(("m_not_nearest", "position %d: reported (index, offset) %s is not the nearest image %s" % (k, key, sorted(ties)[:3])))
                break
            same = num[hit] == want_num[k]
            if same and m is None:
                viol.append(("m_species", "position %d: nearest image has the requested species but was reported as substitution" % k))
                break
            if not same and (sb is None or m is not None):
                viol.append(("m_species", "position %d: nearest image has another species but was reported as a match" % k))
                break
            if sb is not None and (sb.original_element != want_num[k] or sb.substitutional_element != num[hit]):
                viol.append(("m_subst_fields", "position %d: substitution elements wrong" % k))
                break
        if viol:
            break
        if len(vacs) != nv:
            viol.append(("m_vacancy_list", "vacancy list has %d entries, %d positions had neither match nor substitution" % (len(vacs), nv)))
            break
        # get_matches_simple: wraps the queries itself; match only for equal species
        ms, disp = g.get_matches_simple(at, cl, Q.copy(), [num[k % len(num)] for k in range(len(Q))], tol)
        for k, q in enumerate(Q):
            d_all = np.sqrt(((q[None, :] - PP) ** 2).sum(1))
            dmin = d_all.min()
            kmin = np.nonzero(d_all <= dmin + 1e-9)[0]
            if abs(dmin - tol) <= EPS or not required[kmin].all():
                continue
            # queries on the upper cell faces are wrapped by the function: skip points not strictly inside
            fr = np.linalg.solve(cell.T, q)
            if np.any((fr < 1e-6) | (fr > 1 - 1e-6)):
                continue
            if dmin > tol:
                if ms[k] is not None:
                    viol.append(("s_false_hit", "get_matches_simple: position %d matched although nothing is within tolerance" % k))
                    break
                continue
            cand = {int(idx[t]) for t in kmin}
            wantz = num[k % len(num)]
            if any(num[c] == wantz for c in cand) and all(num[c] == wantz for c in cand):
                if ms[k] is None or int(ms[k]) not in cand:
                    viol.append(("s_missed", "get_matches_simple: position %d: nearest atom %s within tolerance with equal species, got %r" % (k, sorted(cand), ms[k])))
                    break
                if abs(np.linalg.norm(disp[k]) - dmin) > 1e-9 * (1 + dmin):
                    viol.append(("s_displacement", "get_matches_simple: displacement norm differs from the nearest-image distance"))
                    break
            elif all(num[c] != wantz for c in cand):
                if ms[k] is not None:
                    viol.append(("s_species", "get_matches_simple: position %d matched an atom of another species" % k))
                    break
        if viol:
            break
    return viol, nq


_bin = [None, False]


def _binary():
    if not _bin[1]:
        from mc import extshim

        _bin[1] = True
        try:
            _bin[0] = extshim.load_binary()
        except Exception:
            _bin[0] = None
    return _bin[0]


def run_shard(shard, tier, seed):
    kind, ci, pbc, ch, nch = shard
    full, deg = _cells(tier, seed)
    res = Result()
    sets = _atom_sets(tier, seed)
    binm = _binary()
    if kind == "deg":
        name, cell = deg[ci]
        cc, zero = completed(cell)
        for k, (tag, frac) in enumerate(sets):
            # along a zero vector the atoms sit at 0 / 0.7 Angstrom heights
            fr = frac.copy()
            pos = np.zeros((len(fr), 3))
            for ax in range(3):
                if zero[ax]:
                    pos += np.outer(fr[:, ax] * 2.1, cc[ax])
                else:
                    pos += np.outer(fr[:, ax], cell[ax])
            num = [29, 8, 1][: len(pos)]
            for ext in (0.0, 0.5, 1.0, 2.5, 4.0):
                res.counters["evaluations"] += 1
                res.counters["states"] += 1
                res.counters["traces"] += 1
                try:
                    viol, nrows = check_extended(num, pos, cell, pbc, ext)
                except Exception as e:
                    viol, nrows = [("exception", repr(e))], 0
                res.counters["transitions"] += nrows
                res.outcomes["deg rows=%d" % min(nrows // len(pos), 30)] += 1
                if nrows > len(pos):
                    res.counters["nontrivial_distinct"] += 1
                if viol:
                    case = {"what": "extended", "numbers": num, "pos": pos.tolist(), "cell": cell.tolist(), "pbc": list(pbc), "ext": ext, "cellname": name}
                    res.violation("c16.ext." + viol[0][0], {"case": short_hash(case)}, case, viol[0][1])
        return res
    name, cell = full[ci]
    pairs = _ext_cut(cell, tier)
    for k, (tag, frac) in enumerate(sets):
        if k % nch != ch:
            continue
        pos = frac @ cell
        num = [29, 8, 29][: len(pos)]
        Q = _queries(cell, frac, seed, tier)
        for e, c in pairs:
            res.counters["evaluations"] += 1
            res.counters["states"] += 1
            res.counters["traces"] += 1
            case = None
            try:
                viol, nrows = check_extended(num, pos, cell, pbc, e)
                what = "extended"
                if not viol:
                    what = "query"
                    tols = sorted({min(e, c), 0.3 * min(e, c)})
                    viol, nq = check_queries(num, pos, cell, pbc, e, c, Q, tols, res, binm if k % 4 == 0 else None)
                    res.counters["transitions"] += nq * (1 + 2 * len(tols))
            except Exception as ex:
                import traceback

                viol, what = [("exception", repr(ex) + traceback.format_exc()[-300:])], "exception"
            res.outcomes["%s e%sc" % (name, "<" if e < c else (">" if e > c else "="))] += 1
            if any(pbc):
                res.counters["nontrivial_distinct"] += 1
            if viol or res.counters["evaluations"] % 811 == 1:
                case = {"what": what, "numbers": num, "pos": pos.tolist(), "cell": cell.tolist(), "pbc": list(pbc), "ext": e, "cut": c, "cellname": name, "seed": seed, "tier": tier}
                res.sample(case)
                if viol:
                    res.violation("c16." + viol[0][0], {"case": short_hash(case)}, case, viol[0][1])
    return res


def replay(case):
    num, pos, cell, pbc = case["numbers"], np.array(case["pos"]), np.array(case["cell"]), tuple(case["pbc"])
    out = []
    try:
        viol, _ = check_extended(num, pos, cell, pbc, case["ext"])
        pre = "c16.ext." if case["what"] == "extended" and "cut" not in case else "c16."
        if not viol and "cut" in case:
            frac = np.linalg.solve(cell.T, pos.T).T
            Q = _queries(cell, frac, case.get("seed", 0), case.get("tier", "thorough"))
            e, c = case["ext"], case["cut"]
            viol, _ = check_queries(num, pos, cell, pbc, e, c, Q, sorted({min(e, c), 0.3 * min(e, c)}))
    except Exception as ex:
        viol, pre = [("exception", repr(ex))], "c16."
    if viol:
        out.append({"signature": {"check": pre + viol[0][0], "case": short_hash(case)}, "case": case, "reason": viol[0][1]})
    return out


def describe(tier, seed):
    full, deg = _cells(tier, seed)
    return {
        "rule": "every (cell x pbc mask x atom set x (extension, cutoff) pair): get_extended_system rows checked row by row and for completeness against brute-force image "
                "enumeration; then a cell list is built and queried at ~90-170 points (F_4 grid, corners, atom sites, pair midpoints, each exact and offset); every query is compared "
                "with the reference image set; get_matches / get_matches_simple are run on the same points (and on points pushed outside the cell) with 2 tolerances; "
                "degenerate cells (1-3 zero vectors) x compatible pbc masks x 5 extensions for the extended system; states = (structure, extension, cutoff) inputs, transitions = queries/matches/rows compared",
        "nontrivial_rule": "inputs with at least one periodic direction (images exist)",
        "bounds": {"cells": [c[0] for c in full], "degenerate_cells": [c[0] for c in deg], "atom_sets": len(_atom_sets(tier, seed)),
                   "ext_cut_pairs": len(_ext_cut(full[0][1], tier)), "eps_band": EPS},
        "assumptions": ["atoms inside the cell", "an image farther than the extension from the cell may or may not be present; only images within (extension - eps) of the cell are required",
                        "matching is compared only where the nearest image is one the cell list is obliged to contain and the distance is not within eps of the tolerance",
                        "for degenerate cells the distance to the cell ignores the directions of the zero vectors"],
        "bin_differential": True,
        "exhaustive": True,
    }
