"""C08 - see mc/symfam.py (oracle_c08), mc/props/_famb.py (root x presentation exploration) and
mc/symhist.py (call-history exploration on one live analyser)."""
from mc import symhist
from mc.engine import Result, short_hash
from mc.props import _famb

PROPERTY = "C08"
HIST_GETTERS = ["get_wyckoff_sets_conventional:False", "get_wyckoff_sets_conventional:True", "get_material_id", "get_has_free_wyckoff_parameters", "get_conventional_system"]
HIST_LEN = {'quick': 3, 'thorough': 4}


def shards(tier, seed):
    from mc.props import c11

    return _famb.shards(PROPERTY, tier, seed) + [("hist", k) for k in range(len(symhist.system_sets(seed)))] + [("2d", k) for k in range(len(c11.roots(tier, seed)))]


def check_2d(root, tier, seed, res=None, only=None):
    """2D inputs: the call must succeed, report exactly the free variables of each set's representative with values in
    [0,1), and the flag must agree.  (Substitution is not compared for 2D inputs: the returned 2D cell is recentred and
    rescaled along the non-periodic direction, so the statement's 'position of an atom' is not defined there.)"""
    from matid.symmetry import SymmetryAnalyzer
    from mc.props import c11, c14
    from mc import present

    s = c11.build_root(root, seed)
    viol = []
    for label, p in c11.presentations(s, tier, seed):
        if label not in ("id", "rot.g0", "axes201", "super2x1", "flip", "vac x2") or (only is not None and label != only):
            continue
        if res is not None:
            res.counters["states"] += 1
            res.counters["evaluations"] += 1
            res.counters["transitions"] += 1
        try:
            an = SymmetryAnalyzer(p.atoms(), 0.01)
            ws = an.get_wyckoff_sets_conventional(return_parameters=True)
            flag = an.get_has_free_wyckoff_parameters()
        except Exception as e:
            viol.append((label, "exception_2d", "2D input: get_wyckoff_sets_conventional(return_parameters=True) raised %r" % (e,)))
            continue
        anyvar = False
        for w in ws:
            free = {"xyz"[i] for e in w.representative for i in range(3) if c14.parse_expr(e)[0][i] != 0}
            got = {k for k in "xyz" if getattr(w, k) is not None}
            anyvar = anyvar or bool(free)
            if got != free:
                viol.append((label, "variables_2d", "2D input, set %s/%s: parameters reported for %s, representative %s has %s" % (w.wyckoff_letter, w.element, sorted(got), w.representative, sorted(free))))
                break
            if any(not (0 <= getattr(w, k) < 1) for k in got):
                viol.append((label, "range_2d", "2D input, set %s/%s: parameter outside [0,1)" % (w.wyckoff_letter, w.element)))
                break
        else:
            if flag != anyvar:
                viol.append((label, "flag_2d", "2D input: has_free_wyckoff_parameters=%r but %s set carries a parameter" % (flag, "some" if anyvar else "no")))
    return viol


def run_shard(shard, tier, seed):
    if shard[0] == "2d":
        from mc.props import c11

        res = Result()
        root = c11.roots(tier, seed)[shard[1]]
        viol = check_2d(root, tier, seed, res)
        res.counters["traces"] += 1
        res.nontrivial.add("2d:%s" % (root,))
        if shard[1] % 40 == 0:
            res.sample({"kind": "2d", "root": list(root)})
        for label, kind, d in viol:
            case = {"kind": "2d", "root": list(root), "presentation": label, "tier": tier, "seed": seed}
            res.violation("c08." + kind, {"root": str(list(root)), "presentation": label}, case, "%s, %s: %s" % (list(root), label, d))
        return res
    if shard[0] != "hist":
        return _famb.run_shard(PROPERTY, shard, tier, seed)
    res = Result()
    systems = symhist.system_sets(seed)[shard[1]]
    viol = symhist.explore(systems, 0.01, HIST_LEN[tier], res, getters=HIST_GETTERS)
    res.counters["traces"] += 1
    res.nontrivial.add("hist:%d" % shard[1])
    res.sample({"kind": "history", "systems": [l for l, _ in systems], "length": HIST_LEN[tier]})
    seen = set()
    for seq, sysname, ev, d in viol:
        if (sysname, ev) in seen:
            continue
        seen.add((sysname, ev))
        case = {"kind": "hist", "set": shard[1], "seq": list(seq), "seed": seed}
        res.violation("c08.history", {"set": shard[1], "seq": "|".join(seq)}, case, d)
    return res


def replay(case):
    if case.get("kind") == "2d":
        viol = check_2d(tuple(case["root"]), case.get("tier", "quick"), case.get("seed", 0), None, only=case["presentation"])
        return [{"signature": {"check": "c08." + kind, "root": str(case["root"]), "presentation": label}, "case": case, "reason": d} for label, kind, d in viol]
    if case.get("kind") != "hist":
        return _famb.replay(PROPERTY, case)
    from matid.symmetry import SymmetryAnalyzer

    systems = symhist.system_sets(case.get("seed", 0))[case["set"]]
    an = SymmetryAnalyzer(systems[0][1].copy(), 0.01)
    cur, cache, out = 0, {}, []
    for i, ev in enumerate(case["seq"]):
        if ev.startswith("set:"):
            cur = int(ev[4:])
            an.set_system(systems[cur][1].copy())
            continue
        want = symhist.fresh_values(systems[cur][1], 0.01, cache)[ev]
        try:
            got = symhist.digest(symhist.call(an, ev))
        except Exception as e:
            got = ("EXC", type(e).__name__)
        if got != want:
            out.append({"signature": {"check": "c08.history", "set": case["set"], "seq": "|".join(case["seq"])}, "case": case,
                        "reason": "after %s, %s returns a different value than on a fresh analyser" % (case["seq"][:i], ev)})
            break
    return out


def describe(tier, seed):
    d = _famb.describe(PROPERTY, tier, seed)
    d["rule"] += " Plus history exploration: every sequence of length %d over the events %s + set_system(k) on one live analyser for %d pairs of representative crystals; each returned value is compared with a fresh analyser's." % (
        HIST_LEN[tier], HIST_GETTERS or "all 18 public getters", len(symhist.system_sets(seed)))
    d["bounds"]["history_length"] = HIST_LEN[tier]
    from mc.props import c11

    d["rule"] += " Plus 2D inputs: every layer root of C11 (%d) x {identity, rotation, axis relabelling, 2x1 supercell, flip, vacuum x2}: the call succeeds, exactly the free variables are reported in [0,1), flag consistent." % len(c11.roots(tier, seed))
    d["assumptions"] = d["assumptions"] + ["for 2D inputs the substitution clause is not compared (the returned 2D cell is recentred and rescaled along the non-periodic direction)"]
    return d
