"""C11 - 2D materials get a vacuum-, orientation- and labelling-independent normal form.

Roots: layers generated in every symmorphic space group compatible with a layer (Hall-database
operations, each admissible stacking axis) with 1-3 orbits, flat and buckled, plus graphene / h-BN / MX2.
Presentation BFS (depth 1, and depth 2 in the thorough tier): vacuum, all 6 axis relabellings, in-plane
supercells, rigid motions incl. flipping the sheet, translations, permutations; min_2d_thickness values."""
import itertools

import numpy as np
from ase import Atoms

from mc import catalog, geom, present, sym
from mc.engine import Result, short_hash
from mc.present import S

PROPERTY = "C11"
TOL = 0.01
Z = (29, 8, 16)


def layer_groups():
    out = []
    for sg in range(1, 231):
        R, T = sym.ops(sg)
        cell = layer_cell(sg, 2)
        cen = sym.centring_translations(sg)
        if not all(any(np.abs(sym.fdiff(t, c)).max() < 1e-9 for c in cen) for t in T):
            continue  # not symmorphic
        for k in range(3):
            o = [j for j in range(3) if j != k]
            good = all(abs(r[k, k]) == 1 and all(r[k, j] == 0 and r[j, k] == 0 for j in o) for r in R) and all(abs(((t[k] + 0.5) % 1) - 0.5) < 1e-9 for t in T)
            c = layer_cell(sg, k)
            perp = abs(c[k] @ c[o[0]]) < 1e-9 and abs(c[k] @ c[o[1]]) < 1e-9
            if good and perp:
                out.append((sg, k))
    return out


def layer_cell(sg, k, L=15.0):
    from ase.cell import Cell

    if sg <= 2:
        c = np.array(Cell.fromcellpar([5.1, 6.3, 7.4, 90, 90, 108]))
    else:
        c = sym.cell_of(sg).copy()
    c[k] = c[k] / np.linalg.norm(c[k]) * L
    return c


def make_layer(sg, k, norb, buckled, seed):
    cell = layer_cell(sg, k)
    pts = []
    g = sym.GEN[seed % 4]
    o = [j for j in range(3) if j != k]
    for i in range(norb):
        p = np.zeros(3)
        if i == 0:
            p[o[0]], p[o[1]] = g[0], g[1]
            p[k] = 0.5 + (0.6 / 15.0 if buckled else 0.0)
        elif i == 1:
            p[k] = 0.5  # special in-plane position at the origin of the 2D cell
        else:
            p[o[0]], p[o[1]] = sym.GEN[(seed + 1) % 4][0], sym.GEN[(seed + 1) % 4][2]
            p[k] = 0.5 - (0.4 / 15.0 if buckled else 0.0)
        pts.append(p)
    pos, num = [], []
    for i, p in enumerate(pts):
        ob = sym.orbit(sg, p)
        pos.append(ob)
        num += [Z[i]] * len(ob)
    pos = np.vstack(pos)
    pbc = [True, True, True]
    pbc[k] = False
    return S(num, pos @ cell, cell, pbc)


def roots(tier, seed):
    out = []
    for sg, k in layer_groups():
        for norb in (1, 2) if tier == "quick" else (1, 2, 3):
            for buckled in (False, True):
                if tier == "quick" and norb == 1 and not buckled and sg > 2:
                    continue
                out.append(("grp", sg, k, norb, buckled))
    for name in catalog.monolayers():
        out.append(("mono", name))
    return out


def build_root(r, seed):
    if r[0] == "grp":
        return make_layer(r[1], r[2], r[3], r[4], seed)
    u = catalog.monolayers()[r[1]].copy()
    c = np.array(u.get_cell())
    c[2] = [0, 0, 15.0]
    u.set_cell(c)
    u.center(axis=2)
    return S(u.get_atomic_numbers(), u.get_positions(), c, (True, True, False))


def nonper(s):
    return [i for i in range(3) if not s.pbc[i]][0]


def set_vacuum(s, factor):
    k = nonper(s)
    cell = s.cell.copy()
    fr = np.linalg.solve(s.cell.T, s.pos.T).T
    centre = fr[:, k].mean()
    cell[k] = s.cell[k] * factor
    pos = s.pos - np.outer(fr[:, k], s.cell[k]) + np.outer((fr[:, k] - centre) / factor + 0.5, cell[k])
    return S(s.num, pos, cell, s.pbc)


def inplane_super(s, M2):
    k = nonper(s)
    o = [j for j in range(3) if j != k]
    M = np.eye(3, dtype=int)
    for a in range(2):
        for b in range(2):
            M[o[a], o[b]] = M2[a][b]
    return present.supercell(s, M)


def flip(s):
    k = nonper(s)
    o = [j for j in range(3) if j != k]
    ax = s.cell[o[0]] / np.linalg.norm(s.cell[o[0]])
    R = geom.rot_axis(ax, 180)
    return present.rotate(s, R)


def presentations(s, tier, seed):
    gr = geom.generic_rotations(seed, 2)
    n = len(s.num)
    k = nonper(s)
    out = [("id", s)]
    for f in (0.6, 2.0):
        out.append(("vac x%g" % f, set_vacuum(s, f)))
    for perm in itertools.permutations(range(3)):
        if perm != (0, 1, 2):
            out.append(("axes%s" % "".join(map(str, perm)), present.relabel_axes(s, perm)))
    out.append(("super2x1", inplane_super(s, [[2, 0], [0, 1]])))
    out.append(("super.rot45", inplane_super(s, [[1, 1], [-1, 1]])))
    out.append(("rot.g0", present.rotate(s, gr[0])))
    out.append(("flip", flip(s)))
    o = [j for j in range(3) if j != k]
    out.append(("trans", present.translate(s, 0.37 * s.cell[o[0]] - 1.21 * s.cell[o[1]] + 0.13 * s.cell[k])))
    if n > 1:
        out.append(("perm.rev", present.permute(s, list(range(n))[::-1])))
    if tier != "quick":
        out.append(("super1x2", inplane_super(s, [[1, 0], [0, 2]])))
        out.append(("super2x2", inplane_super(s, [[2, 0], [0, 2]])))
        out.append(("super3x1", inplane_super(s, [[3, 0], [0, 1]])))
        # depth 2
        out.append(("vac x2+axes201", present.relabel_axes(set_vacuum(s, 2.0), (2, 0, 1))))
        out.append(("flip+super2x1+rot", present.rotate(inplane_super(flip(s), [[2, 0], [0, 1]]), gr[1])))
        out.append(("axes120+trans", present.translate(present.relabel_axes(s, (1, 2, 0)), np.array([2.2, -0.4, 0.0]) @ np.eye(3), rewrap=False)))
    return out


def analyse(s, min_t):
    from matid.symmetry import SymmetryAnalyzer

    an = SymmetryAnalyzer(s.atoms(), TOL, min_2d_thickness=min_t)
    conv = an.get_conventional_system()
    rec = {"sg": int(an.get_space_group_number()), "id": an.get_material_id(),
           "sets": sorted((w.wyckoff_letter, w.element, w.multiplicity) for w in an.get_wyckoff_sets_conventional(False)),
           "cell": np.array(conv.get_cell()), "pbc": conv.get_pbc().tolist(), "frac": conv.get_scaled_positions(wrap=False), "num": conv.get_atomic_numbers().tolist(),
           "pos": conv.get_positions()}
    return rec


def structural(rec, min_t, extent_in):
    v = []
    if rec["pbc"] != [True, True, False]:
        v.append(("pbc", "conventional system has pbc %s, expected [True, True, False]" % rec["pbc"]))
        return v
    c = rec["cell"]
    if abs(c[2] @ c[0]) > 1e-6 * np.linalg.norm(c[2]) * np.linalg.norm(c[0]) or abs(c[2] @ c[1]) > 1e-6 * np.linalg.norm(c[2]) * np.linalg.norm(c[1]):
        v.append(("perpendicular", "the non-periodic (third) vector is not perpendicular to the periodic plane"))
    fr = np.asarray(rec["frac"])
    if fr.min() < -1e-7 or fr.max() > 1 + 1e-7:
        v.append(("inside", "scaled positions range [%.6f, %.6f]: not all atoms inside the cell" % (fr.min(), fr.max())))
    ext = (fr[:, 2].max() - fr[:, 2].min()) * np.linalg.norm(c[2])
    want = max(ext, min_t)
    if abs(np.linalg.norm(c[2]) - want) > 1e-5 * (1 + want):
        v.append(("thickness", "cell thickness %.6f, expected max(atomic extent %.6f, min_2d_thickness %g)" % (np.linalg.norm(c[2]), ext, min_t)))
    if abs(ext - extent_in) > 10 * TOL:
        v.append(("extent", "atomic extent along the normal changed from %.4f to %.4f" % (extent_in, ext)))
    return v


def inplane(rec):
    from ase.cell import Cell

    cp = Cell(rec["cell"]).cellpar()
    return np.array([cp[0], cp[1], cp[5]])


def explore_root(r, tier, seed, res=None, only=None):
    s = build_root(r, seed)
    k = nonper(s)
    nrm = s.cell[k] / np.linalg.norm(s.cell[k])
    extent_in = (s.pos @ nrm).max() - (s.pos @ nrm).min()
    viol = []
    root_rec = None
    for label, p in presentations(s, tier, seed):
        if only is not None and label not in ("id", only):
            continue
        for mt in (1, 0.5, 3) if label in ("id", "axes120") else (1,):
            if res is not None:
                res.counters["states"] += 1
                res.counters["evaluations"] += 1
                res.counters["transitions"] += 0 if label == "id" else 1
            try:
                rec = analyse(p, mt)
            except Exception as e:
                viol.append((label, "exception", "analysis raised %r (min_2d_thickness %g)" % (e, mt)))
                continue
            for kind, d in structural(rec, mt, extent_in):
                viol.append((label, kind, d + " (min_2d_thickness %g)" % mt))
            if root_rec is None:
                root_rec = rec
                # id must differ from the 3D treatment of the same cell
                try:
                    from matid.symmetry import SymmetryAnalyzer

                    a3 = s.atoms()
                    a3.set_pbc(True)
                    if SymmetryAnalyzer(a3, TOL).get_material_id() == rec["id"]:
                        viol.append((label, "id_2d_vs_3d", "material id equals the id of the same cell treated as a 3D crystal"))
                except Exception:
                    pass
                continue
            for name, a, b in (("material id", root_rec["id"], rec["id"]), ("space group", root_rec["sg"], rec["sg"]), ("(letter, element, multiplicity) multiset", root_rec["sets"], rec["sets"])):
                if a != b:
                    viol.append((label, "normal_form", "%s differs from the root presentation: %r vs %r" % (name, b, a)))
                    break
            else:
                if np.abs(inplane(rec) - inplane(root_rec)).max() > 1e-3:
                    viol.append((label, "inplane_lattice", "in-plane lattice parameters (a, b, gamma) %s differ from the root's %s" % (inplane(rec).round(4).tolist(), inplane(root_rec).round(4).tolist())))
    if res is not None and root_rec is not None:
        res.outcomes["sg%d" % root_rec["sg"]] += 1
    return viol


def shards(tier, seed):
    return list(range(len(roots(tier, seed))))


def run_shard(shard, tier, seed):
    res = Result()
    r = roots(tier, seed)[shard]
    viol = explore_root(r, tier, seed, res)
    res.counters["traces"] += 1
    res.nontrivial.add(str(r))
    res.sample({"root": list(r)})
    seen = set()
    for label, kind, d in viol:
        if (label, kind) in seen:
            continue
        seen.add((label, kind))
        case = {"root": list(r), "presentation": label, "tier": tier, "seed": seed}
        res.violation("c11." + kind, {"root": str(list(r)), "presentation": label}, case, "%s, presentation %s: %s" % (list(r), label, d))
    return res


def replay(case):
    r = tuple(case["root"])
    viol = explore_root(r, case.get("tier", "quick"), case.get("seed", 0), None, only=case["presentation"])
    return [{"signature": {"check": "c11." + kind, "root": str(list(r)), "presentation": label}, "case": case, "reason": d} for label, kind, d in viol if label == case["presentation"]]


def describe(tier, seed):
    lg = layer_groups()
    return {
        "rule": "roots = layers in every (symmorphic space group, admissible stacking axis) pair found from the Hall database (%d pairs) with %s orbits, flat and buckled (<= 1.2 A), + graphene/h-BN/MoS2(2H,1T)/WS2; "
                "every root is analysed (min_2d_thickness 1, 0.5, 3) and re-presented by: vacuum x0.6/x2, the 5 non-trivial axis relabellings, in-plane supercells, generic rotation, flip, translation, reversed order%s; "
                "structural clauses evaluated in every state, normal-form fields compared with the root. states = analyser runs, transitions = generator applications" % (len(lg), "1-2" if tier == "quick" else "1-3", "" if tier == "quick" else " + further supercells and three depth-2 words"),
        "nontrivial_rule": "each root",
        "bounds": {"layer_group_axis_pairs": [list(x) for x in lg], "roots": len(roots(tier, seed)), "symmetry_tol": TOL},
        "assumptions": ["the property text says 31 symmorphic layer-compatible groups; the harness finds the pairs listed under bounds from spglib's Hall database and explores all of them"],
        "exhaustive": True,
    }
