"""Shared exploration for the SBC properties C01 and C13: structure families
F1 (lattice gas), F2 (deviation-bounded defective crystals, two-slab stack),
F3 (molecules) x parameter deviations x scripted seed-choice tree."""
import itertools

import numpy as np

from mc import families, geom, sbc_harness
from mc.engine import Result, short_hash

EPS = 1e-6
PARAM_DEVS = [
    {},
    {"bond_threshold": 0.4},
    {"bond_threshold": 1.0},
    {"pos_tol": 0.3},
    {"pos_tol": 1.0},
    {"max_cell_size": 4},
    {"max_cell_size": 8},
    {"merge_threshold": 0.0},
    {"merge_threshold": 1.0},
    {"radii": "vdw"},
    {"radii": "vdw_covalent"},
    {"radii": "custom"},
]


def structure_list(tier, seed):
    """[(label, Atoms, hint ranks for the first seed choice)]"""
    out = []
    # ---- F2
    for name, base, ads in families.f2_bases():
        out.append((name, base, None))
        kinds = ("vac", "sub", "ads", "disp")
        devs = families.deviations(base, ads, kinds=kinds)
        if tier == "quick":
            # every vacancy/substitution/adatom; displacements of every 3rd atom
            devs = [d for d in devs if not d[0].startswith("disp") or (int("".join(c for c in d[0][4:] if c.isdigit())) % 3 == 0 and d[0][-2:] in ("x+", "z-"))]
        for lab, at in devs:
            out.append((name + ":" + lab, at, lab))
    # rigid translations out of the cell along non-periodic directions
    for name, base, ads in families.f2_bases():
        pbc = base.get_pbc()
        if pbc.any() and not pbc.all():
            k = [i for i in range(3) if not pbc[i]][0]
            for f in (-1.3, 2.2):
                a = base.copy()
                a.positions += f * np.array(a.get_cell())[k]
                out.append((name + ":shift%+g" % f, a, None))
    # non-rigidly unwrapped presentations: individual atoms moved by whole lattice vectors of periodic directions
    for name, base, ads in families.f2_bases():
        pbc = base.get_pbc()
        per = [i for i in range(3) if pbc[i]]
        if not per:
            continue
        a = base.copy()
        cell = np.array(a.get_cell())
        for i in range(len(a)):
            if i % 4 == 0:
                a.positions[i] += 2 * cell[per[0]]
            elif i % 4 == 1:
                a.positions[i] -= 3 * cell[per[-1]]
        out.append((name + ":unwrapped", a, None))
    # small unit cells of (layered) bulk crystals, fully periodic
    for lab, at in families.unit_cells():
        out.append(("unit:" + lab, at, None))
    st = families.stack_base()
    out.append(("stack", st, None))
    top = st.positions[np.argmax(st.positions[:, 2])]
    for lab, at in families.deviations(st, [top + [0, 0, 1.9]], kinds=("ads",)):
        out.append(("stack:" + lab, at, lab))
    for lab, at in families.deviations(st, [], kinds=("vac", "sub")):
        if tier == "quick" and int(lab[3:]) % 3:
            continue
        out.append(("stack:" + lab, at, lab))
    if tier != "quick":
        st2 = st.copy()
        st2.set_pbc(True)
        out.append(("stack.TTT", st2, None))
        for name, base, ads in families.f2_bases()[:5]:
            # pairs of deviations (vacancy/substitution only) on the 18-27 atom bases
            if len(base) > 27:
                continue
            singles = families.deviations(base, ads, kinds=("vac", "sub"))
            for (l1, a1), (l2, a2) in itertools.combinations(singles[:: 3], 2):
                if l1[3:] == l2[3:]:
                    continue
                i1, i2 = int(l1[3:]), int(l2[3:])
                a = base.copy()
                z = a.get_atomic_numbers()
                dele = []
                for l, i in ((l1, i1), (l2, i2)):
                    if l.startswith("sub"):
                        z[i] = 47
                    else:
                        dele.append(i)
                a.set_atomic_numbers(z)
                for i in sorted(dele, reverse=True):
                    del a[i]
                out.append((name + ":" + l1 + "+" + l2, a, l1))
    # ---- F3
    for lab, m in families.molecules():
        out.append(("mol:" + lab, m, None))
    # ---- F1 lattice gas (2x2x2, <=4 atoms quick / all thorough), three spacings, cell kinds
    off = geom.GENERIC_OFFSETS[seed % 4] * 3
    gas = list(families.lattice_gas((2, 2, 2), max_atoms=3 if tier == "quick" else 5))
    for gi, (sites, cols) in enumerate(gas):
        for spacing in (2.6, 3.4) if tier == "quick" else (2.6, 3.4, 4.5):
            for pbc, kind in (((True, True, True), "cubic"), ((True, True, False), "skew"), ((False, False, False), "none"), ((True, False, False), "cubic"),
                              ((False, True, True), "cubic"), ((False, True, False), "skew"), ((False, False, True), "cubic"), ((True, False, True), "skew")):
                if tier == "quick" and (spacing != 2.6 or gi % 2) and not (kind == "cubic" and all(pbc)):
                    continue
                at = families.gas_atoms(sites, cols, (29, 8), spacing, (2, 2, 2), pbc, cell_kind=kind, offset=off)
                if kind == "cubic" and gi % 5 == 1 and any(pbc) and not all(pbc):
                    # whole structure moved out of the cell along a non-periodic axis
                    k = [i for i in range(3) if not pbc[i]][0]
                    at.positions += 1.7 * np.array(at.get_cell())[k]
                if kind == "cubic" and gi % 5 == 0 and any(pbc):
                    # unwrapped variant: first atom shifted out by a lattice vector
                    k = [i for i in range(3) if pbc[i]][0]
                    at.positions[0] += 2 * np.array(at.get_cell())[k]
                out.append(("gas:%d:%g:%s:%s" % (gi, spacing, "".join("T" if b else "F" for b in pbc), kind), at, None))
    # ---- degenerate / invalid cells
    from ase import Atoms

    out.append(("zero_cell_periodic", Atoms("Cu2", positions=[[0, 0, 0], [2.5, 0, 0]], cell=[[4, 0, 0], [0, 4, 0], [0, 0, 0]], pbc=[True, True, True]), None))
    out.append(("zero_cell_nonperiodic", Atoms("Cu4", positions=[[0, 0, 0], [2.5, 0, 0], [0, 2.5, 0], [2.5, 2.5, 0]], cell=[[5, 0, 0], [0, 5, 0], [0, 0, 0]], pbc=[True, True, False]), None))
    return out


def first_ranks(label, n):
    """Candidate ranks for the first seed choice (one per interesting class): the defect atom,
    its index neighbours, the first, middle and last atom."""
    ranks = {0, n // 2, n - 1}
    if label:
        digits = "".join(c if c.isdigit() else " " for c in label).split()
        if digits:
            i = int(digits[0])
            ranks |= {min(max(i + d, 0), n - 1) for d in (-1, 0, 1)}
    return sorted(ranks)


def resolve_params(params, atoms):
    p = dict(params)
    if p.get("radii") == "custom":
        z = atoms.get_atomic_numbers()
        from ase.data import covalent_radii

        p["radii"] = np.array([covalent_radii[k] * (1.05 if i % 2 else 0.97) for i, k in enumerate(z)])
    return p


def radii_for(params, numbers):
    from mc.props.c19 import reference_radii

    r = params.get("radii", "covalent")
    if isinstance(r, str):
        return reference_radii(r, numbers)
    return np.asarray(r, float)


def clusters_key(clusters):
    return sorted((tuple(sorted(int(i) for i in c.indices)), tuple(sorted(int(s) for s in c.species))) for c in clusters)


# ---------------------------------------------------------------- oracles
def oracle_c01(atoms, snap, clusters, params, mic=None):
    v = []
    n = len(atoms)
    num = atoms.get_atomic_numbers()
    if families.snapshot(atoms) != snap:
        v.append(("input_mutated", "get_clusters modified the caller's structure"))
    seen = set()
    bt = params.get("bond_threshold", 0.65)
    R = radii_for(params, num)
    if mic is None:
        mic = geom.mic_table(atoms.get_positions(), np.array(atoms.get_cell()), tuple(bool(b) for b in atoms.get_pbc()))
    bonded = (mic - R[:, None] - R[None, :]) <= bt + EPS
    for ci, c in enumerate(clusters):
        idx = [int(i) for i in c.indices]
        if len(idx) == 0:
            v.append(("empty", "cluster %d has no atoms" % ci))
            continue
        if len(set(idx)) != len(idx):
            v.append(("duplicate", "cluster %d lists an atom twice: %s" % (ci, idx)))
        if min(idx) < 0 or max(idx) >= n:
            v.append(("range", "cluster %d has an index outside 0..%d" % (ci, n - 1)))
            continue
        if seen & set(idx):
            v.append(("overlap", "clusters share atoms %s" % sorted(seen & set(idx))))
        seen |= set(idx)
        if not set(int(z) for z in num[idx]) <= set(int(s) for s in c.species):
            v.append(("species", "cluster %d contains atomic numbers %s not in its species %s" % (ci, sorted(set(num[idx].tolist())), sorted(c.species))))
        # connectivity under the bonding criterion evaluated on the input
        todo, comp = [idx[0]], {idx[0]}
        members = set(idx)
        while todo:
            u = todo.pop()
            for w in np.nonzero(bonded[u])[0]:
                w = int(w)
                if w in members and w not in comp:
                    comp.add(w)
                    todo.append(w)
        if comp != members:
            v.append(("disconnected", "cluster %d (%d atoms) is not one bonded component: %d atoms are not reachable" % (ci, len(idx), len(members - comp))))
        cell = c.get_cell()
        if cell is None:
            v.append(("no_cell", "cluster %d exposes no prototype cell" % ci))
        else:
            npbc = int(np.sum(cell.get_pbc()))
            if npbc not in (2, 3):
                v.append(("cell_pbc", "prototype cell of cluster %d is periodic in %d directions" % (ci, npbc)))
    return v


def oracle_c13(atoms, clusters, params):
    import matid.geometry as g

    v = []
    bt = params.get("bond_threshold", 0.65)
    nontrivial = False
    for ci, c in enumerate(clusters):
        try:
            a = c.get_dimensionality()
            b = c.get_dimensionality()
        except Exception as e:
            v.append(("exception", "Cluster.get_dimensionality raised %r" % (e,)))
            continue
        sub = c.get_atoms()
        R = radii_for(params, sub.get_atomic_numbers()) if isinstance(params.get("radii", "covalent"), str) else np.asarray(params["radii"], float)[c.indices]
        ref = g.get_dimensionality(sub.copy(), bt, radii=R.copy())
        if a != ref:
            v.append(("shortcut", "cluster %d (%d of %d atoms): Cluster.get_dimensionality()=%r, get_dimensionality(cluster atoms)=%r" % (ci, len(c.indices), len(atoms), a, ref), a, ref))
        elif a != b:
            v.append(("repeat", "cluster %d: repeated calls differ: %r then %r" % (ci, a, b)))
        if len(c.indices) < len(atoms):
            nontrivial = True
    return v, nontrivial
