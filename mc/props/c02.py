"""C02 - SBC groups a single crystal (bulk or slab) into exactly one complete cluster.

Complete catalogue of materials passing the independent precondition x {bulk, facets x layers x pbc}
x presentations (noise fields <= 0.05 A, rotation, translation, permutation) x scripted seed choices."""
import numpy as np

from mc import catalog, sbc_harness
from mc.engine import Result, short_hash
from mc.props import _catfam

PROPERTY = "C02"


def shards(tier, seed):
    return list(range(len(_catfam.roots(tier))))


def check_root(name, variant, tier, seed, res=None, only=None):
    at, dim_want = _catfam.build(name, variant)
    viol = []
    n = len(at)
    for label, s in _catfam.presentations(at, tier, seed):
        if only is not None and label != only[0]:
            continue
        scripts = _catfam.seed_scripts(n, tier) if label in ("id", "noise%d@0.05" % (seed % 4)) else [()]
        if only is not None:
            scripts = [tuple(only[1])]
        for script in scripts:
            a = s.atoms()
            try:
                clusters, trace = sbc_harness.run_scripted(a, list(script))
            except Exception as e:
                viol.append((label, script, "exception", "get_clusters raised %r" % (e,)))
                continue
            if res is not None:
                res.counters["states"] += 1
                res.counters["evaluations"] += 1
                res.counters["transitions"] += len(trace)
                res.outcomes["ncl=%d" % len(clusters)] += 1
            sizes = sorted(len(c.indices) for c in clusters)
            if len(clusters) != 1 or sorted(int(i) for i in clusters[0].indices) != list(range(n)):
                viol.append((label, script, "not_one_cluster", "expected one cluster with all %d atoms, got %d cluster(s) of sizes %s" % (n, len(clusters), sizes[-4:])))
                continue
            d = clusters[0].get_dimensionality()
            if d != dim_want:
                viol.append((label, script, "dimensionality", "cluster dimensionality %r, expected %d" % (d, dim_want)))
    return viol, n


def _vj(variant):
    if variant[0] == "thin":
        return list(variant)
    return [variant[0]] + ([list(variant[1]), variant[2], variant[3]] if len(variant) > 1 else [])


def run_shard(shard, tier, seed):
    res = Result()
    name, variant = _catfam.roots(tier)[shard]
    viol, n = check_root(name, variant, tier, seed, res)
    res.counters["traces"] += 1
    res.nontrivial.add("%s:%s" % (name, variant))
    res.sample({"material": name, "variant": _vj(variant), "atoms": n})
    seen = set()
    for label, script, kind, d in viol:
        if (label, kind) in seen:
            continue
        seen.add((label, kind))
        case = {"material": name, "variant": _vj(variant), "presentation": label, "script": list(script), "tier": tier, "seed": seed}
        res.violation("c02." + kind, {"material": name, "variant": str(_vj(variant)), "presentation": label, "script": str(list(script))}, case,
                      "%s %s, presentation %s, seed choices %s: %s" % (name, _vj(variant), label, list(script), d))
    return res


def replay(case):
    v = case["variant"]
    variant = ("bulk",) if v[0] == "bulk" else (tuple(v) if v[0] == "thin" else ("slab", tuple(v[1]), v[2], v[3]))
    viol, _ = check_root(case["material"], variant, case.get("tier", "quick"), case.get("seed", 0), None, only=(case["presentation"], case["script"]))
    out = []
    for label, script, kind, d in viol:
        out.append({"signature": {"check": "c02." + kind, "material": case["material"], "variant": str(case["variant"]), "presentation": label, "script": str(list(script))}, "case": case, "reason": d})
    return out


def describe(tier, seed):
    mats = _catfam.materials(tier)
    excluded = {}
    for n in [e[0] for e in catalog.elements()] + list(catalog.compounds()):
        r = catalog.precondition(n)
        if r:
            excluded[n] = r
    return {
        "rule": "catalogue = every elemental fcc/bcc/hcp/diamond/sc reference crystal and the listed compound prototypes that pass the independent precondition%s; per material: bulk supercell (heights > 12.5 A) and slabs "
                "(facets per crystal type x %s surface-cell layers x {TTF, TTT+vacuum}) and, for the elemental materials, slabs with exactly 3 (and 4) atomic layers from the dedicated ASE builders; per root: identity, two noise fields (0.05 and 0.02 A), generic rotation, translation out of the cell, reversed atom order%s; "
                "seed-choice scripts (first choice ranks %s) on the identity and the 0.05 A presentation. states = get_clusters executions, transitions = seed choices" % (
                    " (quick tier: a fixed 15-material subset)" if tier == "quick" else "", "3" if tier == "quick" else "3 and 4",
                    "" if tier == "quick" else ", all 4 noise rows at both amplitudes, rotation+noise, roll+translation, single-atom kick", "{0, n/2, n-1}" if tier == "quick" else "{0,1,n/4,n/2,3n/4,n-1}"),
        "nontrivial_rule": "each (material, variant) root is one distinct non-trivial case",
        "bounds": {"materials": mats, "excluded_by_precondition": excluded, "roots": len(_catfam.roots(tier))},
        "assumptions": ["precondition: every atom's nearest-neighbour gap (distance minus covalent radii) <= bond_threshold-0.1, every pair gap >= overlap_threshold+0.1, <=6 atoms and Niggli vectors < 5.95 A in the primitive cell",
                        "noise = deterministic unit-vector fields scaled to the amplitude (each atom displaced by exactly the amplitude)"],
        "exhaustive": True,
    }
