"""C19 - radii presets and custom radii are honoured uniformly.

(a) complete enumeration Z = 1..103 x 3 presets against an independent table
    built from ase.data;
(b) differential over a complete lattice-gas family: every consumer
    (get_dimensionality, get_distances, SBC.get_clusters) must give the same
    result for a preset and for the reference numbers passed as a per-atom array."""
import itertools

import numpy as np

from mc import families
from mc.engine import Result, short_hash

PROPERTY = "C19"
PRESETS = ("covalent", "vdw", "vdw_covalent")
# species pairs from both sides of the "has a tabulated vdW radius" line
PAIRS = [(29, 61), (8, 84), (1, 2), (100, 86), (3, 17), (1, 6)]  # (1,2): more atoms than the largest atomic number
SPACINGS = (2.6, 3.4)


def reference_radii(preset, numbers):
    from ase.data import covalent_radii
    from ase.data.vdw_alvarez import vdw_radii

    numbers = np.asarray(numbers)
    if preset == "covalent":
        return np.array([covalent_radii[z] for z in numbers], float)
    if preset == "vdw":
        return np.array([vdw_radii[z] for z in numbers], float)
    out = []
    for z in numbers:
        v = vdw_radii[z] if z < len(vdw_radii) else float("nan")
        out.append(covalent_radii[z] if np.isnan(v) else v)
    return np.array(out, float)


def _structs(tier):
    if tier == "quick":
        return list(families.lattice_gas((2, 2, 2), max_atoms=3))
    return list(families.lattice_gas((2, 2, 2), max_atoms=5))


def light_structures():
    """Structures with many more atoms than their largest atomic number (custom arrays cannot be mistaken for per-element tables unnoticed)."""
    from ase.build import bulk, molecule

    lih = bulk("LiH", "rocksalt", a=4.08, cubic=True).repeat((2, 2, 1))
    slab = lih.copy()
    c = np.array(slab.get_cell())
    c[2] *= 3
    slab.set_cell(c)
    slab.set_pbc([True, True, False])
    pe = molecule("C6H6")
    pe.set_cell(np.eye(3) * 12.0)
    pe.center()
    pe.set_pbc(True)
    return [("LiH.rocksalt221", lih), ("LiH.layer.TTF", slab), ("C6H6.box", pe)]


def shards(tier, seed):
    out = [("table",), ("light",)]
    n = len(_structs(tier))
    pairs = PAIRS[:3] if tier == "quick" else PAIRS
    nchunk = 12 if tier == "quick" else 48
    for pi in range(len(pairs)):
        for sp in SPACINGS:
            for ch in range(nchunk):
                out.append(("diff", pi, sp, ch, nchunk))
    return out


def check_table(res):
    import matid.geometry as g
    from ase.data import covalent_radii
    from ase.data.vdw_alvarez import vdw_radii

    zs = np.arange(1, 104)
    for preset in PRESETS:
        got = np.asarray(g.get_radii(preset, zs), float)
        ref = reference_radii(preset, zs)
        for z, a, b in zip(zs, got, ref):
            res.counters["evaluations"] += 1
            res.counters["states"] += 1
            res.counters["transitions"] += 1
            has_any = (not np.isnan(vdw_radii[z])) or (not np.isnan(covalent_radii[z]))
            ok = (a == b) or (np.isnan(a) and np.isnan(b))
            if preset == "vdw_covalent" and has_any and not (np.isfinite(a) and a > 0):
                ok = False
            if np.isnan(vdw_radii[z]) and preset != "covalent":
                res.nontrivial.add("%s:%d" % (preset, z))
            res.outcomes["%s:%s" % (preset, "nan" if np.isnan(a) else "finite")] += 1
            if not ok:
                case = {"kind": "table", "preset": preset, "Z": int(z)}
                res.violation("c19.table", {"preset": preset, "Z": int(z)}, case,
                              "get_radii(%r) for Z=%d is %r, documented table gives %r" % (preset, z, float(a), float(b)),
                              observed=float(a), expected=float(b))
    # a custom per-atom array is used unchanged
    arr = np.linspace(0.3, 1.7, 7)
    num = np.array([1, 8, 29, 61, 84, 3, 100])
    got = g.get_radii(arr.copy(), num)
    res.counters["evaluations"] += 1
    if not np.array_equal(np.asarray(got), arr):
        res.violation("c19.custom_unchanged", {}, {"kind": "custom"}, "custom per-atom radii array was altered: %r" % (got,))
    res.sample({"kind": "table", "preset": "vdw_covalent", "Z": 61})


def _clusters_key(clusters):
    return sorted((tuple(sorted(int(i) for i in c.indices)), tuple(sorted(int(s) for s in c.species))) for c in clusters)


def diff_case(at, preset, with_sbc):
    """Returns list of (kind, detail). Compares preset vs reference array in every consumer."""
    import matid.geometry as g
    from matid.clustering.sbc import SBC

    num = at.get_atomic_numbers()
    ref = reference_radii(preset, num)
    out = []
    if not np.all(np.isfinite(ref)):
        return out, "undefined"
    a = g.get_dimensionality(at.copy(), radii=preset, return_clusters=True)
    b = g.get_dimensionality(at.copy(), radii=ref.copy(), return_clusters=True)
    ka = (a[0], sorted(map(tuple, a[1])))
    kb = (b[0], sorted(map(tuple, b[1])))
    if ka != kb:
        out.append(("dimensionality", "get_dimensionality(radii=%r)=%r but with the same numbers as an array %r" % (preset, ka, kb)))
    da = g.get_distances(at.copy(), radii=preset)
    db = g.get_distances(at.copy(), radii=ref.copy())
    if not np.array_equal(da.dist_matrix_radii_mic, db.dist_matrix_radii_mic):
        out.append(("distances", "get_distances(radii=%r) differs from the array form" % preset))
    rr = ref[:, None] + ref[None, :]
    if not np.allclose(da.dist_matrix_radii_mic, da.dist_matrix_mic - rr, atol=1e-12):
        out.append(("distances_table", "get_distances(radii=%r) did not subtract the documented radii" % preset))
    tag = "dim=%s" % (a[0],)
    if max(num) < len(num):
        # "a custom per-atom array is used unchanged": strongly contrasting per-atom radii on a structure with more
        # atoms than its largest atomic number, compared with the periodic bonding-graph reference model
        from mc import geom

        arr = np.array([0.35 if i % 2 == 0 else 1.25 for i in range(len(num))])
        thr = 0.4
        cell, pbc = np.array(at.get_cell()), tuple(bool(x) for x in at.get_pbc())
        lo = geom.periodic_rank(at.get_positions(), cell, pbc, arr, thr, -1e-6)
        hi = geom.periodic_rank(at.get_positions(), cell, pbc, arr, thr, 1e-6)
        if lo == hi and (lo[0] > 1 or lo[1] == lo[2]):
            want = None if lo[0] > 1 else lo[1]
            got = g.get_dimensionality(at.copy(), thr, radii=arr.copy())
            if got != want:
                out.append(("custom_array", "get_dimensionality with the per-atom radii %s gives %r, the bonding graph with exactly these radii gives %r" % (arr.tolist(), got, want)))
    if with_sbc and max(num) < len(num) and len(set(num.tolist())) > 1:
        # a custom per-atom array is used unchanged by SBC: reordering atoms together with their radii is a relabelling
        arr = np.array([0.35 + 0.45 * ((2 * i) % 3) for i in range(len(num))])
        perm = list(range(1, len(num))) + [0]
        c1 = _clusters_key(SBC().get_clusters(at.copy(), radii=arr.copy()))
        c2 = _clusters_key(SBC().get_clusters(at[perm], radii=arr[perm].copy()))
        back = sorted((tuple(sorted(perm[i] for i in idx)), sp) for idx, sp in c2)
        if c1 != back:
            out.append(("sbc_custom_array", "SBC.get_clusters with per-atom radii %s gives %s, the same structure with the atom list rolled by one (radii reordered with the atoms) gives %s" % (arr.tolist(), c1, back)))
    if with_sbc:
        ca = _clusters_key(SBC().get_clusters(at.copy(), radii=preset))
        cb = _clusters_key(SBC().get_clusters(at.copy(), radii=ref.copy()))
        if ca != cb:
            out.append(("sbc", "SBC.get_clusters(radii=%r)=%r but with the array %r" % (preset, ca, cb)))
        tag += " ncl=%d" % len(ca)
    return out, tag


def run_shard(shard, tier, seed):
    res = Result()
    if shard[0] == "table":
        check_table(res)
        return res
    if shard[0] == "light":
        for label, at in light_structures():
            for preset in PRESETS:
                res.counters["evaluations"] += 1
                res.counters["states"] += 1
                res.counters["transitions"] += 4
                case = {"kind": "diff", "atoms": families.atoms_case(at), "preset": preset, "sbc": True, "label": label}
                try:
                    viol, tag = diff_case(at, preset, True)
                except Exception as e:
                    viol, tag = [("exception", repr(e))], "exc"
                res.outcomes["%s %s" % (preset, tag)] += 1
                res.nontrivial.add("light:%s:%s" % (label, preset))
                for k, d in viol[:1]:
                    res.violation("c19." + k, {"case": short_hash(case)}, case, "%s: %s" % (label, d))
        res.sample({"kind": "light", "structures": [l for l, _ in light_structures()]})
        return res
    _, pi, spacing, ch, nchunk = shard
    species = PAIRS[pi]
    structs = _structs(tier)
    off = np.array([0.11, 0.07, 0.05])
    for idx in range(ch, len(structs), nchunk):
        sites, cols = structs[idx]
        for pbc in ((True, True, True), (True, True, False), (False, False, False)):
            at = families.gas_atoms(sites, cols, species, spacing, (2, 2, 2), pbc, offset=off)
            for preset in PRESETS:
                with_sbc = (idx % 3 == 0) if tier == "quick" else True
                res.counters["evaluations"] += 1
                res.counters["states"] += 1
                res.counters["transitions"] += 3 if with_sbc else 2
                res.counters["traces"] += 1
                case = {"kind": "diff", "atoms": families.atoms_case(at), "preset": preset, "sbc": with_sbc}
                try:
                    viol, tag = diff_case(at, preset, with_sbc)
                except Exception as e:
                    viol, tag = [("exception", repr(e))], "exc"
                res.outcomes["%s %s" % (preset, tag)] += 1
                if len(set(cols)) > 1 and preset != "covalent":
                    res.counters["nontrivial_distinct"] += 1
                if res.counters["evaluations"] % 499 == 1:
                    res.sample(case)
                for k, d in viol[:1]:
                    res.violation("c19." + k, {"case": short_hash(case)}, case, d)
    return res


def replay(case):
    out = []
    if case.get("kind") == "table":
        r = Result()
        check_table(r)
        for v in r.violations:
            if v["case"].get("Z") == case.get("Z") and v["case"].get("preset") == case.get("preset"):
                out.append(v)
        return out
    if case.get("kind") == "custom":
        r = Result()
        check_table(r)
        return [v for v in r.violations if v["signature"]["check"] == "c19.custom_unchanged"]
    at = families.atoms_from_case(case["atoms"])
    try:
        viol, _ = diff_case(at, case["preset"], case["sbc"])
    except Exception as e:
        viol = [("exception", repr(e))]
    for k, d in viol[:1]:
        out.append({"signature": {"check": "c19." + k, "case": short_hash(case)}, "case": case, "reason": d})
    return out


def describe(tier, seed):
    return {
        "rule": "(a) all Z=1..103 x {covalent, vdw, vdw_covalent} against a table built independently from ase.data; "
                "(b) every {vacant,X,Y} configuration of a 2x2x2 grid with <= %d atoms x species pairs x spacings x 3 pbc masks x 3 presets: "
                "get_dimensionality / get_distances / SBC.get_clusters with the preset vs the reference numbers as an array" % (3 if tier == "quick" else 5),
        "nontrivial_rule": "table entries of elements without a vdW radius; differential cases with two species and a vdW-based preset",
        "bounds": {"Z": "1..103", "presets": 3, "structures": len(_structs(tier)), "pairs": PAIRS[:3] if tier == "quick" else PAIRS,
                   "spacings": SPACINGS, "sbc_slice": "every 3rd structure" if tier == "quick" else "all"},
        "assumptions": ["documented table = ase.data.covalent_radii / ase.data.vdw_alvarez.vdw_radii", "cases whose reference radius is undefined (NaN) are skipped in the differential and counted as 'undefined' outcomes"],
        "exhaustive": True,
    }
