"""C18 - the classifier recognises pristine slabs and monolayers and isolates adsorbates.

Catalogue slabs (facets the property lists) x layers x adsorbate sets (all subsets of a site list up to the
stated size) x presentations; monolayer supercells."""
import itertools

import numpy as np
from ase import Atom, Atoms
from ase.data import covalent_radii

from mc import catalog, geom, present
from mc.engine import Result, short_hash
from mc.present import S

PROPERTY = "C18"
QUICK = ["Cu", "Al", "Fe", "Mg", "Si", "NaCl", "NiAl", "ZnO", "Au", "TiO2"]
BOND_T = 0.75


def facets(kind):
    if kind in ("hcp", "wurtzite"):
        return [(0, 0, 1)]
    if kind == "bcc":
        return [(1, 0, 0)]
    if kind == "rutile":
        return [(0, 0, 1), (1, 0, 0), (1, 1, 0)]
    return [(1, 0, 0), (1, 1, 0), (1, 1, 1)]


def precondition(name):
    """bonding precondition with the classifier's thresholds (bond 0.75, overlap -0.6)"""
    unit, kind = catalog.conventional(name)
    m = catalog.nn_margins(unit)
    if m[:, 0].max() > BOND_T - 0.1:
        return "unbonded"
    if m[:, 1].min() < -0.6 + 0.1:
        return "overlapping"
    return None


def materials(tier):
    names = [e[0] for e in catalog.elements()] + list(catalog.compounds())
    ok = [n for n in names if precondition(n) is None]
    return [n for n in QUICK if n in ok] if tier == "quick" else ok


def roots(tier):
    out = []
    for name in materials(tier):
        _, kind = catalog.conventional(name)
        for m in facets(kind):
            for layers in (3,) if tier == "quick" else (3, 5):
                out.append(("slab", name, m, layers))
    for name in materials(tier):
        _, kind = catalog.conventional(name)
        for f in {"fcc": ("fcc100", "fcc110", "fcc111"), "bcc": ("bcc100",), "hcp": ("hcp0001",), "diamond": ("diamond100", "diamond111")}.get(kind, ()):
            out.append(("thin", name, f, 3))
    for name in catalog.monolayers():
        for rep in (3, 5) if tier == "quick" else (3, 4, 5, 6):
            out.append(("mono", name, rep))
            if rep == 3 or tier != "quick":
                out.append(("mono", name, rep, 10.0))  # small cell height: less vacuum than max_cell_size
    return out


def thin_slab(name, builder, nlayers):
    """Slab with exactly `nlayers` atomic layers from the dedicated ASE builder, lateral heights >= 9 A."""
    import ase.build

    fn = getattr(ase.build, builder)
    one = fn(name, size=(1, 1, nlayers), vacuum=8.0)
    c = np.array(one.get_cell())
    ha = np.linalg.norm(np.cross(c[0], c[1])) / np.linalg.norm(c[1])
    hb = np.linalg.norm(np.cross(c[0], c[1])) / np.linalg.norm(c[0])
    s = fn(name, size=(int(np.ceil(9.0 / ha)), int(np.ceil(9.0 / hb)), nlayers), vacuum=8.0)
    s.set_pbc(True)
    return s


def ads_sites(slab):
    """top / bridge / hollow-like sites on the upper face, at bonding height (gap 0.3 A to the nearest slab atom)."""
    nrm = np.cross(slab.cell[0], slab.cell[1])
    nrm /= np.linalg.norm(nrm)
    h = slab.get_positions() @ nrm
    top = np.argsort(-h)
    t0 = int(top[0])
    p0 = slab.positions[t0]
    # nearest other top-layer atom
    layer = [int(i) for i in top if h[i] > h[t0] - 0.3]
    d = np.linalg.norm(slab.positions[layer] - p0, axis=1)
    order = np.argsort(d)
    sites = [("top", p0.copy())]
    if len(layer) > 1:
        p1 = slab.positions[layer[int(order[1])]]
        sites.append(("bridge", (p0 + p1) / 2))
    if len(layer) > 2:
        p2 = slab.positions[layer[int(order[2])]]
        sites.append(("hollow", (p0 + p1 + p2) / 3))
    return sites, nrm


def place(slab, site, nrm, z_ads):
    """Raise the adsorbate along the normal until its smallest gap to the slab is 0.3 A."""
    P = slab.get_positions()
    R = covalent_radii[slab.get_atomic_numbers()]
    lo, hi = 0.0, 6.0
    for _ in range(60):
        mid = (lo + hi) / 2
        q = site + mid * nrm
        gap = (np.linalg.norm(P - q, axis=1) - R - covalent_radii[z_ads]).min()
        if gap < 0.3:
            lo = mid
        else:
            hi = mid
    return site + hi * nrm


def build(root, tier):
    if root[0] == "mono":
        u = catalog.monolayers()[root[1]].copy()
        c = np.array(u.get_cell())
        c[2] = [0, 0, root[3] if len(root) > 3 else 16.0]
        u.set_cell(c)
        u.center(axis=2)
        at = u.repeat((root[2], root[2], 1))
        at.set_pbc(True)
        return at, [([], at)]
    if root[0] == "thin":
        slab = thin_slab(root[1], root[2], root[3])
        name = root[1]
    else:
        _, name, m, layers = root
        slab = catalog.slab(name, tuple(m), layers, True, vacuum=8.0, min_height=9.0)
    z_ads = 1 if 1 not in slab.get_atomic_numbers() else 8
    if name in ("C", "Si") or 8 in slab.get_atomic_numbers():
        z_ads = 1
    sites, nrm = ads_sites(slab)
    pts = [place(slab, p, nrm, z_ads) for _, p in sites]
    variants = [([], slab)]
    maxk = 1 if tier == "quick" else 2
    for k in range(1, maxk + 1):
        for comb in itertools.combinations(range(len(pts)), k):
            if k == 2 and np.linalg.norm(pts[comb[0]] - pts[comb[1]]) < 1.2:
                continue
            a = slab.copy()
            for j in comb:
                a.append(Atom(z_ads, position=pts[j]))
            variants.append(([sites[j][0] for j in comb], a))
    return slab, variants


def check_root(root, tier, seed, res=None, only=None):
    from matid.classification.classifier import Classifier
    from matid.classification import classifications as C

    base, variants = build(root, tier)
    gr = geom.generic_rotations(seed, 1)
    viol = []
    for ads, at in variants:
        n = len(at)
        nslab = len(base)
        want_out = list(range(nslab, n))
        s0 = S(at.get_atomic_numbers(), at.get_positions(), np.array(at.get_cell()), at.get_pbc())
        # ordering with the atom nearest to the centre of the atoms listed first (index 0 is a boundary case for seed handling)
        ctr = int(np.argmin(np.linalg.norm(s0.pos - s0.pos.mean(0), axis=1)))
        cfirst = [ctr] + [i for i in range(n) if i != ctr]
        pres = [("id", s0, list(range(n))), ("rot.g0", present.rotate(s0, gr[0]), list(range(n))),
                ("trans+rev", present.permute(present.translate(s0, np.array([1.3, -2.1, 0.7])), list(range(n))[::-1]), list(range(n))[::-1]),
                ("centre.first", present.permute(s0, cfirst), cfirst)]
        for label, s, order in pres:
            if tier == "quick" and ads and label == "rot.g0":
                continue
            tag = "%s/%s" % ("+".join(ads) or "clean", label)
            if only is not None and tag != only:
                continue
            try:
                c = Classifier().classify(s.atoms())
            except Exception as e:
                viol.append((tag, "exception", "classify raised %r" % (e,)))
                continue
            if res is not None:
                res.counters["states"] += 1
                res.counters["evaluations"] += 1
                res.counters["transitions"] += 1
                res.outcomes[type(c).__name__] += 1
            if root[0] == "mono":
                if type(c) is not C.Material2D:
                    viol.append((tag, "class", "monolayer classified as %s, expected Material2D" % type(c).__name__))
                elif len(c.outliers):
                    viol.append((tag, "outliers", "monolayer reported with %d outliers" % len(c.outliers)))
                continue
            if type(c) is not C.Surface:
                viol.append((tag, "class", "slab%s classified as %s, expected Surface" % (" with adsorbate(s) on " + "+".join(ads) if ads else "", type(c).__name__)))
                continue
            got = sorted(order[int(i)] for i in c.outliers)
            if got != want_out:
                viol.append((tag, "outliers", "outliers %s, expected exactly the adsorbate atoms %s" % (got[:8], want_out)))
    return viol, len(base)


def shards(tier, seed):
    return list(range(len(roots(tier))))


def _rj(r):
    return [list(x) if isinstance(x, tuple) else x for x in r]


def run_shard(shard, tier, seed):
    res = Result()
    r = roots(tier)[shard]
    viol, n = check_root(r, tier, seed, res)
    res.counters["traces"] += 1
    res.nontrivial.add(str(r))
    res.sample({"root": _rj(r), "atoms": n})
    seen = set()
    for tag, kind, d in viol:
        if (tag, kind) in seen:
            continue
        seen.add((tag, kind))
        case = {"root": _rj(r), "variant": tag, "tier": tier, "seed": seed}
        res.violation("c18." + kind, {"root": str(_rj(r)), "adsorbates": tag.split("/")[0], "presentation": tag.split("/")[1]}, case, "%s, %s: %s" % (_rj(r), tag, d))
    return res


def replay(case):
    r = tuple(tuple(x) if isinstance(x, list) else x for x in case["root"])
    viol, _ = check_root(r, case.get("tier", "quick"), case.get("seed", 0), None, only=case["variant"])
    return [{"signature": {"check": "c18." + kind, "root": str(case["root"]), "adsorbates": tag.split("/")[0], "presentation": tag.split("/")[1]}, "case": case, "reason": d} for tag, kind, d in viol]


def describe(tier, seed):
    return {
        "rule": "catalogue slabs (fcc/diamond/sc and cubic compounds: (100),(110),(111); bcc: (100); hcp/wurtzite: (001); rutile: (001),(100),(110)) x %s surface-cell layers, lateral heights >= 9 A, fully periodic with 16 A vacuum, "
                "x adsorbate sets = all subsets of {top, bridge, hollow} of size <= %d (H, or O where H is in the slab; placed along the normal at a 0.3 A gap) x {identity, generic rotation, translation + reversed order}; "
                "thin slabs with exactly three atomic layers from the dedicated ASE builders (fcc100/110/111, bcc100, hcp0001, diamond100/111) for every elemental catalogue material; an ordering with the centre atom first; "
                "monolayer supercells (graphene, h-BN, MoS2 2H/1T, WS2). states = classify executions" % ("3" if tier == "quick" else "3 and 5", 1 if tier == "quick" else 2),
        "nontrivial_rule": "each (material, facet, layers) / monolayer root",
        "bounds": {"materials": materials(tier), "roots": len(roots(tier))},
        "assumptions": ["bonding precondition evaluated independently with the classifier's thresholds (bond 0.75, overlap -0.6, margin 0.1)", "recognition claim: coverage = the enumerated catalogue"],
        "exhaustive": True,
    }
