"""C17 - the classifier's output is consistent with the dimensionality and with its own region.

Every structure of the C01 families (all pbc masks for the lattice gas, wrapped/unwrapped, full-rank or absent
cell) x parameter deviations, plus call histories classify(A); classify(B); classify(A) on one Classifier."""
import itertools

import numpy as np

from mc import families, geom
from mc.engine import Result, short_hash
from mc.props import _sbcfam

PROPERTY = "C17"
NCHUNK = {"quick": 64, "thorough": 256}
PARAMS = [{}, {"cluster_threshold": 1.0}, {"cluster_threshold": 3.5}, {"pos_tol": 0.5}, {"max_cell_size": 6}, {"min_coverage": 0.8}, {"min_coverage": 0.3}]


def structure_list(tier, seed):
    out = []
    for label, at, hint in _sbcfam.structure_list(tier, seed):
        if label.startswith("gas:") or label.startswith("zero_cell"):
            continue
        out.append((label, at))
    # molecules without any cell, and with a rank-1 / rank-2 cell along non-periodic directions only
    from ase.build import molecule

    for name in ("H2O", "CH4", "C6H6"):
        m = molecule(name)
        out.append(("mol:%s.nocell" % name, m))
        m2 = m.copy()
        m2.set_cell([[9.0, 0, 0], [0, 0, 0], [0, 0, 0]])
        out.append(("mol:%s.rank1cell" % name, m2))
    off = geom.GENERIC_OFFSETS[seed % 4] * 3
    gas = list(families.lattice_gas((2, 2, 2), max_atoms=3 if tier == "quick" else 5))
    for gi, (sites, cols) in enumerate(gas):
        for spacing in (2.6, 3.4, 4.5):
            for pbc in geom.PBCS:
                if tier == "quick" and (gi + sum(pbc)) % 2:
                    continue
                kind = "none" if (not any(pbc) and gi % 4 == 0) else ("skew" if gi % 3 == 0 else "cubic")
                at = families.gas_atoms(sites, cols, (29, 8), spacing, (2, 2, 2), pbc, cell_kind=kind, offset=off)
                if kind != "none" and gi % 4 == 0 and any(pbc):
                    k = [i for i in range(3) if pbc[i]][-1]
                    at.positions[-1] -= 3 * np.array(at.get_cell())[k]
                out.append(("gas:%d:%g:%s:%s" % (gi, spacing, "".join("T" if b else "F" for b in pbc), kind), at))
    return out


def shards(tier, seed):
    return [("e2e", ch, NCHUNK[tier]) for ch in range(NCHUNK[tier])] + [("hist", a, b) for a in range(6) for b in range(6)]


def expected_classes(dim, n):
    from matid.classification import classifications as C

    if dim is None:
        return (C.Unknown,), True
    if dim == 0:
        return ((C.Atom,) if n == 1 else (C.Class0D,)), True
    if dim == 1:
        return (C.Class1D,), True
    if dim == 3:
        return (C.Class3D,), True
    return (C.Class2D, C.Surface, C.Material2D), True


def summarize(c):
    from matid.classification import classifications as C

    d = {"cls": type(c).__name__}
    if isinstance(c, (C.Surface, C.Material2D)):
        d["basis"] = sorted(int(i) for i in c.basis_indices)
        d["outliers"] = sorted(int(i) for i in c.outliers)
    return d


def check_one(atoms, pr, small_oracle=True):
    """classify once on a fresh Classifier; returns (violations, summary)."""
    import matid.geometry as g
    from matid.classification.classifier import Classifier
    from matid.classification import classifications as C
    from matid.data import constants

    v = []
    snap = families.snapshot(atoms)
    clf = Classifier(**pr)
    try:
        c = clf.classify(atoms)
    except Exception as e:
        return [("exception", "classify raised %r" % (e,))], {"cls": "EXC"}
    if families.snapshot(atoms) != snap:
        v.append(("input_mutated", "classify modified the caller's structure"))
    n = len(atoms)
    w = atoms.copy()
    w.wrap()
    thr = pr.get("cluster_threshold", constants.CLUSTER_THRESHOLD)
    dim = g.get_dimensionality(w, thr)
    allowed, _ = expected_classes(dim, n)
    if type(c) not in allowed:
        v.append(("class_vs_dim", "classified as %s but the dimensionality of the wrapped structure is %r" % (type(c).__name__, dim)))
    if small_oracle and n <= 6:
        from ase.data import covalent_radii

        R = covalent_radii[atoms.get_atomic_numbers()]
        cell, pbc = np.array(atoms.get_cell()), tuple(bool(b) for b in atoms.get_pbc())
        lo = geom.periodic_rank(w.get_positions(), cell, pbc, R, thr, -1e-6)
        hi = geom.periodic_rank(w.get_positions(), cell, pbc, R, thr, 1e-6)
        if lo == hi and (lo[0] > 1 or lo[1] == lo[2]):
            d2 = None if lo[0] > 1 else lo[1]
            if type(c) not in expected_classes(d2, n)[0]:
                v.append(("class_vs_graph", "classified as %s but the periodic bonding graph has dimensionality %r" % (type(c).__name__, d2)))
    if isinstance(c, (C.Surface, C.Material2D)):
        if c.prototype_cell is None:
            v.append(("no_cell", "%s without a prototype cell" % type(c).__name__))
        b = [int(i) for i in c.basis_indices]
        o = [int(i) for i in c.outliers]
        if set(b) & set(o) or sorted(b + o) != list(range(n)) or len(set(b)) != len(b):
            v.append(("partition", "basis atoms and outliers do not partition the atoms"))
        if len(set(b)) < pr.get("min_coverage", constants.MIN_COVERAGE) * n - 1e-9:
            v.append(("coverage", "%s although the region covers only %d of %d atoms (min_coverage %r)" % (type(c).__name__, len(set(b)), n, pr.get("min_coverage", constants.MIN_COVERAGE))))
    if c.atoms is not atoms and families.snapshot(c.atoms) != snap:
        v.append(("atoms_attr", "classification.atoms is not the input structure"))
    s = summarize(c)
    # repeated call on the same instance and on a fresh one
    try:
        c2 = clf.classify(atoms)
        if summarize(c2) != s:
            v.append(("repeat", "a second classify() on the same Classifier gives %s, the first gave %s" % (summarize(c2)["cls"], s["cls"])))
    except Exception as e:
        v.append(("exception", "second classify raised %r" % (e,)))
    s["dim"] = dim
    return v, s


def sequence_in_fresh_process(names, pr, tier, seed):
    """Executed through mc.isolated in a fresh interpreter: one Classifier, the given sequence of systems."""
    from matid.classification.classifier import Classifier

    R = dict(reps(tier, seed))
    clf = Classifier(**pr)
    out = []
    for n in names:
        try:
            out.append(summarize(clf.classify(R[n].copy())))
        except Exception as e:
            out.append({"cls": "EXC:" + type(e).__name__})
    return out


def check_history(systems, pr):
    """classify(A); classify(B); classify(A) on one instance vs fresh instances."""
    from matid.classification.classifier import Classifier

    v = []
    fresh = []
    for at in systems:
        fresh.append(summarize(Classifier(**pr).classify(at.copy())))
    clf = Classifier(**pr)
    for k, at in enumerate(systems):
        s = summarize(clf.classify(at.copy()))
        if s != fresh[k]:
            v.append(("history", "call %d of a classify sequence on one Classifier gives %s, a fresh Classifier gives %s" % (k, s, fresh[k])))
            break
    return v


def history_violations(names, pr, tier, seed, res=None):
    R = dict(reps(tier, seed))
    try:
        v = check_history([R[n] for n in names], pr)
    except Exception as e:
        v = [("exception", "classify raised %r" % (e,))]
    if not v:
        # the same sequence in a fresh interpreter: "repeated calls give the same class" must also hold when other
        # structures are classified in between (state shared through the process, not through the instance)
        from mc import isolated

        outs = isolated.call("mc.props.c17", "sequence_in_fresh_process", [list(names), pr, tier, seed])
        if res is not None:
            res.counters["transitions"] += len(names)
        first = {}
        for k2, (nm, o) in enumerate(zip(names, outs)):
            if nm in first and first[nm] != o:
                v = [("history_process", "in a fresh process, call %d of the sequence %s classifies %s as %s, the first call on the same structure gave %s" % (k2, list(names), nm, o, first[nm]))]
                break
            first.setdefault(nm, o)
    return v


def reps(tier, seed):
    """Six representative systems for the history exploration."""
    base = {n: a for n, a, _ in families.f2_bases()}
    st = families.stack_base()
    mol = dict(families.molecules())
    vac = base["fcc100slab.TTF"].copy()
    del vac[13]
    del vac[4]
    from ase.build import bcc100

    fe = bcc100("Fe", size=(4, 4, 3), vacuum=6.0)
    fe.set_pbc([True, True, False])
    return [("fcc100slab.TTF", base["fcc100slab.TTF"]), ("graphene33", base["graphene33"]), ("fcc222", base["fcc222"]), ("stack", st),
            ("bcc100slab.Fe", fe), ("slab-2vac", vac)]


def run_shard(shard, tier, seed):
    res = Result()
    if shard[0] == "hist":
        R = reps(tier, seed)
        a, b = R[shard[1]], R[shard[2]]
        for c in ([None] if tier == "quick" else R):
            for pr in ({},) if tier == "quick" else ({}, {"pos_tol": 0.5}):
                seq = [a, b, a] if c is None else [a, b, c, a]
                res.counters["evaluations"] += 1
                res.counters["states"] += 1
                res.counters["transitions"] += len(seq)
                res.counters["traces"] += 1
                v = history_violations([x[0] for x in seq], pr, tier, seed, res)
                res.outcomes["hist"] += 1
                res.nontrivial.add("h:%s" % "-".join(x[0] for x in seq))
                if v:
                    case = {"kind": "hist", "seq": [x[0] for x in seq], "params": pr, "tier": tier, "seed": seed}
                    res.violation("c17." + v[0][0], {"seq": "-".join(case["seq"]), "params": str(pr)}, case, "sequence %s: %s" % (case["seq"], v[0][1]))
        res.sample({"kind": "hist", "first": a[0]})
        return res
    _, ch, nch = shard
    structs = structure_list(tier, seed)
    for k in range(ch, len(structs), nch):
        label, atoms = structs[k]
        is_base = (":" not in label) or label.startswith("mol:")
        kk = sum(ord(c) for c in label)
        plist = PARAMS if (is_base or (tier != "quick" and kk % 3 == 0)) else [{}] + ([PARAMS[1 + kk % 6]] if kk % 3 == 0 else [])
        for pr in plist:
            res.counters["evaluations"] += 1
            res.counters["states"] += 1
            res.counters["transitions"] += 2
            res.counters["traces"] += 1
            v, s = check_one(atoms, pr)
            res.outcomes["%s dim=%s" % (s["cls"], s.get("dim"))] += 1
            if s["cls"] in ("Surface", "Material2D", "Class2D", "Class1D", "Unknown"):
                res.nontrivial.add(short_hash([label, str(pr)]))
            if k % 307 == 0 and not pr:
                res.sample({"label": label, "atoms": len(atoms), "pbc": atoms.get_pbc().tolist(), "class": s["cls"]})
            seen = set()
            for kind, d in v:
                if kind in seen:
                    continue
                seen.add(kind)
                case = {"kind": "one", "label": label, "atoms": families.atoms_case(atoms), "params": pr}
                res.violation("c17." + kind, {"label": label, "params": str(pr)}, case, "%s, params %s: %s" % (label, pr, d))
    return res


def replay(case):
    out = []
    if case["kind"] == "hist":
        v = history_violations(case["seq"], case["params"], case.get("tier", "quick"), case.get("seed", 0))
        for kind, d in v[:1]:
            out.append({"signature": {"check": "c17." + kind, "seq": "-".join(case["seq"]), "params": str(case["params"])}, "case": case, "reason": d})
        return out
    atoms = families.atoms_from_case(case["atoms"])
    v, _ = check_one(atoms, case["params"])
    seen = set()
    for kind, d in v:
        if kind in seen:
            continue
        seen.add(kind)
        out.append({"signature": {"check": "c17." + kind, "label": case["label"], "params": str(case["params"])}, "case": case, "reason": d})
    return out


def describe(tier, seed):
    structs = structure_list(tier, seed)
    fam = {}
    for l, _ in structs:
        fam[l.split(":")[0]] = fam.get(l.split(":")[0], 0) + 1
    return {
        "rule": "every structure of F1 (2x2x2 two-species lattice gas, 3 spacings, all 8 pbc masks, cubic/skew/absent cell, some atoms shifted out by lattice vectors), F2 (single deviations of 6 crystals, two-slab stack) and F3 (molecules) "
                "x {defaults + one-at-a-time parameter deviations on base structures and a slice}: classify on a fresh Classifier, class compared with get_dimensionality of the wrapped copy (and with the bonding-graph model for <=6 atoms), "
                "region/coverage/partition clauses, input snapshot, second call; plus all sequences %s over 6 representative systems" % ("A,B,A" if tier == "quick" else "A,B,C,A") + " on one Classifier vs fresh Classifiers. states = classify sequences, transitions = classify calls",
        "nontrivial_rule": "cases classified as anything but Class0D/Atom/Class3D, and every distinct call sequence",
        "bounds": {"structures": len(structs), "by_family": fam, "param_sets": len(PARAMS), "history_systems": 6, "history_length": 4},
        "assumptions": ["dimensionality reference = matid.geometry.get_dimensionality on a wrapped copy with the classifier's cluster_threshold and covalent radii (itself checked by C09)"],
        "exhaustive": True,
    }
