"""python -m mc.isolated <module> <function> '<json args>'  -> prints one JSON line with the function's result.
Runs a short call history in a FRESH interpreter, so that process-global state left behind by earlier work of a
worker (module-level caches, mutable default arguments, mutated tables) cannot mask - or fake - a difference."""
import importlib
import json
import os
import subprocess
import sys


def call(module, function, args, timeout=1800, env_extra=None):
    env = dict(os.environ)
    env.update(env_extra or {})
    r = subprocess.run([sys.executable, "-m", "mc.isolated", module, function, json.dumps(args)], capture_output=True, text=True, timeout=timeout, env=env,
                       cwd=os.path.dirname(os.path.dirname(os.path.abspath(__file__))))
    for line in reversed(r.stdout.splitlines()):
        if line.startswith("RESULT "):
            return json.loads(line[7:])
    raise RuntimeError("isolated call %s.%s failed: %s" % (module, function, (r.stderr or r.stdout)[-1500:]))


def main():
    from mc import extshim

    extshim.install()
    import warnings

    warnings.filterwarnings("ignore")
    mod = importlib.import_module(sys.argv[1])
    out = getattr(mod, sys.argv[2])(*json.loads(sys.argv[3]))
    print("RESULT " + json.dumps(out))


if __name__ == "__main__":
    main()
