"""History exploration on one live SymmetryAnalyzer: every sequence of public calls (getters and
set_system re-targeting) up to a bounded length; every return value is compared with the value a
fresh analyser gives for that call alone (differential oracle, no hand-written expectations)."""
import itertools

import numpy as np

GETTERS = [
    "get_material_id", "get_space_group_number", "get_hall_number", "get_point_group", "get_is_chiral", "get_has_free_wyckoff_parameters",
    "get_crystal_system", "get_bravais_lattice", "get_conventional_system", "get_primitive_system",
    "get_wyckoff_letters_original", "get_wyckoff_letters_primitive", "get_wyckoff_letters_conventional",
    "get_equivalent_atoms_original", "get_equivalent_atoms_primitive", "get_equivalent_atoms_conventional",
    "get_wyckoff_sets_conventional:False", "get_wyckoff_sets_conventional:True",
]


def digest(v):
    """Order- and identity-free plain-data digest of a getter's return value."""
    from ase import Atoms

    if isinstance(v, Atoms):
        return ("atoms", tuple(v.get_atomic_numbers().tolist()), tuple(np.round(v.get_scaled_positions(wrap=False), 6).ravel().tolist()),
                tuple(np.round(np.array(v.get_cell()), 6).ravel().tolist()), tuple(v.get_pbc().tolist()))
    if isinstance(v, np.ndarray):
        return ("arr", tuple(v.tolist()))
    if isinstance(v, (list, tuple)):
        if v and hasattr(v[0], "wyckoff_letter"):
            return ("sets", tuple((w.wyckoff_letter, w.element, w.atomic_number, tuple(w.indices), w.multiplicity,
                                   None if w.x is None else round(float(w.x), 6), None if w.y is None else round(float(w.y), 6), None if w.z is None else round(float(w.z), 6)) for w in v))
        return ("seq", tuple(digest(x) for x in v))
    if isinstance(v, (np.generic,)):
        return v.item()
    return v


def call(an, op):
    name, _, arg = op.partition(":")
    if arg:
        return getattr(an, name)(arg == "True")
    return getattr(an, name)()


def fresh_values(atoms, tol, cache):
    from matid.symmetry import SymmetryAnalyzer

    key = id(atoms)
    if key not in cache:
        vals = {}
        for op in GETTERS:
            try:
                vals[op] = digest(call(SymmetryAnalyzer(atoms.copy(), tol), op))
            except Exception as e:
                vals[op] = ("EXC", type(e).__name__)
        cache[key] = vals
    return cache[key]


def system_sets(seed=0):
    """Representative pairs of crystals (all centring types, chiral/achiral, with/without free parameters, one 2D)."""
    from mc import sym
    from ase.build import mx2

    m = mx2("MoS2", kind="2H", a=3.18, thickness=3.19, vacuum=6.0)
    m.set_pbc([True, True, False])
    return [
        [("NaCl(225,F)", sym.crystal(225, [("a", 11), ("b", 17)], anchor=False, seed=seed)), ("quartz-like(152,P,chiral)", sym.crystal(152, [("a", 14), ("c", 8)], anchor=False, seed=seed))],
        [("I4/mmm(139,I)", sym.crystal(139, [("a", 29), ("e", 8)], anchor=False, seed=seed)), ("R-3m(166,R)", sym.crystal(166, [("a", 29), ("c", 8)], anchor=False, seed=seed))],
        [("Amm2(38,A)", sym.crystal(38, [("a", 29), ("d", 8)], anchor=True, seed=seed)), ("Cmmm(65,C)", sym.crystal(65, [("b", 29), ("g", 8)], anchor=False, seed=seed))],
        [("P4_1(76,chiral)", sym.crystal(76, [("a", 29)], anchor=False, seed=seed)), ("MoS2-2H(2D)", m)],
        [("I4_122(98)", sym.crystal(98, [("b", 29), ("e", 8)], anchor=True, seed=seed)), ("Fd-3m(227)", sym.crystal(227, [("a", 14)], anchor=False, seed=seed))],
    ]


def explore(systems, tol, length, res=None, first_ops=None, getters=None):
    """systems: list of (label, Atoms). Events: a getter, or 'set:<k>' re-targeting to system k.
    All event sequences of the given length are executed on ONE analyser (created on system 0)."""
    from matid.symmetry import SymmetryAnalyzer

    cache = {}
    events = list(getters or GETTERS) + ["set:%d" % k for k in range(len(systems))]
    viol = []
    seen_states = set()
    firsts = events if first_ops is None else first_ops
    for seq in itertools.product(*([firsts] + [events] * (length - 1))):
        if seq[-1].startswith("set:"):
            continue  # a trailing re-target observes nothing
        an = SymmetryAnalyzer(systems[0][1].copy(), tol)
        cur = 0
        ok = True
        for i, ev in enumerate(seq):
            if ev.startswith("set:"):
                cur = int(ev[4:])
                an.set_system(systems[cur][1].copy())
                continue
            want = fresh_values(systems[cur][1], tol, cache)[ev]
            try:
                got = digest(call(an, ev))
            except Exception as e:
                got = ("EXC", type(e).__name__)
            if res is not None:
                res.counters["transitions"] += 1
            if got != want:
                viol.append((seq[: i + 1], systems[cur][0], ev, "after the calls %s on one analyser, %s on %s returns a different value than on a fresh analyser" % (list(seq[:i]), ev, systems[cur][0])))
                ok = False
                break
        if res is not None:
            res.counters["states"] += 1
            res.counters["evaluations"] += 1
    return viol
