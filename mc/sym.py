"""Space-group reference data taken from spglib's Hall-symbol database
(independent of matid/data) and the symmetric-crystal family B of DESIGN.md."""
import functools
import itertools

import numpy as np
import spglib

GEN = [
    # four vetted rows of generic Wyckoff parameters (VERIF_SEED % 4 picks the first row used)
    np.array([0.1372, 0.2913, 0.4127]),
    np.array([0.3619, 0.0783, 0.2291]),
    np.array([0.2211, 0.4391, 0.0917]),
    np.array([0.0853, 0.1877, 0.3371]),
]


@functools.lru_cache(maxsize=None)
def hall_map():
    m = {}
    for h in range(1, 531):
        t = spglib.get_spacegroup_type(h)
        m.setdefault(t.number, h)
    return m


@functools.lru_cache(maxsize=None)
def sgtype(sg):
    return spglib.get_spacegroup_type(hall_map()[sg])


@functools.lru_cache(maxsize=None)
def ops(sg):
    """(rotations, translations) of the standard setting (first Hall number)."""
    d = spglib.get_symmetry_from_database(hall_map()[sg])
    return np.array(d["rotations"], int), np.array(d["translations"], float)


def system_of(sg):
    if sg <= 2:
        return "triclinic"
    if sg <= 15:
        return "monoclinic"
    if sg <= 74:
        return "orthorhombic"
    if sg <= 142:
        return "tetragonal"
    if sg <= 167:
        return "trigonal"
    if sg <= 194:
        return "hexagonal"
    return "cubic"


def cellpar(sg, v=0):
    s = system_of(sg)
    a, b, c = [(5.1, 6.3, 7.4), (6.2, 5.3, 8.1)][v % 2]
    if s == "triclinic":
        return [a, b, c, 81, 97, 108]
    if s == "monoclinic":
        return [a, b, c, 90, 103, 90]
    if s == "orthorhombic":
        return [a, b, c, 90, 90, 90]
    if s == "tetragonal":
        return [a, a, c, 90, 90, 90]
    if s in ("trigonal", "hexagonal"):
        return [a, a, c, 90, 90, 120]
    return [b, b, b, 90, 90, 90]


def cell_of(sg, v=0):
    from ase.cell import Cell

    return np.array(Cell.fromcellpar(cellpar(sg, v)))


def is_sohncke(sg):
    R, _ = ops(sg)
    return all(round(np.linalg.det(r)) == 1 for r in R)


def fdiff(a, b):
    """Difference of fractional coordinates folded to [-0.5, 0.5)."""
    return (np.asarray(a) - np.asarray(b) + 0.5) % 1.0 - 0.5


def orbit(sg, p, tol=1e-6):
    R, T = ops(sg)
    pts = (np.einsum("nij,j->ni", R, np.asarray(p, float)) + T) % 1.0
    out = []
    for q in pts:
        if not any(np.all(np.abs(fdiff(q, o)) < tol) for o in out):
            out.append(q)
    return np.array(out)


def centring_translations(sg):
    """Pure lattice translations of the standard setting (including 0)."""
    R, T = ops(sg)
    out = []
    for r, t in zip(R, T):
        if np.array_equal(r, np.eye(3, dtype=int)):
            out.append(t % 1.0)
    return np.array(out)


def letters(sg):
    from matid.data.symmetry_data import WYCKOFF_SETS

    return [k for k in WYCKOFF_SETS[sg] if k != "translations"]


def wyckoff_point(sg, letter, w, k=0):
    """k-th tabulated representative of a MatID Wyckoff position at parameters w=(x,y,z)."""
    from matid.data.symmetry_data import WYCKOFF_SETS

    info = WYCKOFF_SETS[sg][letter]
    return (np.asarray(w) @ info["matrices"][k] + info["constants"][k]) % 1.0


def crystal(sg, occupied, anchor=True, v=0, seed=0, anchor_species=(3, 4)):
    """Family B crystal: `occupied` = [(letter, Z), ...]; each position is
    instantiated from the first representative of MatID's table at a generic
    parameter row and its orbit is generated with the Hall-database operations.
    The optional anchor (two general-position orbits of two further species)
    pins the space group to exactly sg."""
    from ase import Atoms

    pos, num = [], []
    for k, (l, z) in enumerate(occupied):
        o = orbit(sg, wyckoff_point(sg, l, GEN[(seed + k) % 4]))
        pos.append(o)
        num += [z] * len(o)
    if anchor:
        for k, z in enumerate(anchor_species):
            o = orbit(sg, GEN[(seed + k + 1) % 4][::-1].copy())
            pos.append(o)
            num += [z] * len(o)
    pos = np.vstack(pos)
    return Atoms(numbers=num, scaled_positions=pos, cell=cell_of(sg, v), pbc=True)


def spg_dataset(at, symprec):
    return spglib.get_symmetry_dataset((np.array(at.get_cell()), at.get_scaled_positions(), at.get_atomic_numbers()), symprec=symprec)
