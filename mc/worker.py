"""Runs ONE shard of a check in a fresh process: python -m mc.worker <module> <tier> <seed> <shard index> <out.pickle>
Used (a) to find the shard that kills a pool worker and (b) to re-execute a whole shard as a history when a
violation does not reproduce from its single case (state carried over from earlier cases of the shard)."""
import pickle
import sys


def main():
    modname, tier, seed, idx, out = sys.argv[1], sys.argv[2], int(sys.argv[3]), int(sys.argv[4]), sys.argv[5]
    from mc import engine

    engine._init_worker(modname)
    import importlib

    mod = importlib.import_module(modname)
    shard = mod.shards(tier, seed)[idx]
    res = engine._work((shard, tier, seed))
    with open(out, "wb") as fh:
        pickle.dump(res, fh)


if __name__ == "__main__":
    main()
