"""Generic driver: shard a finite case space over a worker pool, aggregate the
coverage counters, triage violations (known findings, reproducibility, replay
files) and write the evidence file.

A property module (mc/props/cXX.py) provides

    PROPERTY = "C10"
    def shards(tier, seed) -> list of picklable shard descriptors
    def run_shard(shard, tier, seed) -> Result   (executed in a worker)
    def replay(case) -> list of violation dicts  (re-executes ONE case, no explorer)
    def describe(tier, seed) -> dict with 'rule', 'bounds', 'assumptions', 'nontrivial_rule'

All exploration is exhaustive over the shards; nothing here samples.
"""
import collections
import hashlib
import importlib
import json
import multiprocessing as mp
import os
import subprocess
import sys
import time
import traceback

VERIF = os.path.dirname(os.path.dirname(os.path.abspath(__file__)))
_OUT = os.environ.get("VERIF_OUT") or VERIF  # scratch output root for side runs against a scratch worktree
EVIDENCE_DIR = os.path.join(_OUT, "evidence")
REPLAY_DIR = os.path.join(_OUT, "replays")
KNOWN = os.path.join(VERIF, "known_findings.json")
NPROC = int(os.environ.get("VERIF_WORKERS", "16"))
MAX_REPLAYS = 12


class Result:
    """What a worker returns for one shard."""

    def __init__(self):
        self.counters = collections.Counter()  # evaluations, states, transitions, traces, ambiguous, filtered, ...
        self.outcomes = collections.Counter()  # distinct observed outcomes (vacuity detector)
        self.nontrivial = set()  # short hashes of distinct non-trivial cases
        self.samples = []  # a few actual cases
        self.violations = []  # dicts: signature, case, reason, observed, expected
        self.notes = collections.Counter()

    def violation(self, check, signature, case, reason, observed=None, expected=None):
        sig = {"check": check}
        sig.update(signature)
        self.violations.append(
            {"signature": sig, "case": case, "reason": reason, "observed": observed, "expected": expected}
        )

    def sample(self, s, cap=3):
        if len(self.samples) < cap:
            self.samples.append(s)

    def pack(self):
        return {
            "counters": dict(self.counters),
            "outcomes": dict(self.outcomes),
            "nontrivial": self.nontrivial,
            "samples": self.samples,
            "violations": self.violations,
            "notes": dict(self.notes),
        }


def short_hash(obj):
    return hashlib.sha1(json.dumps(obj, sort_keys=True, default=str).encode()).hexdigest()[:12]


_MOD = None


def _init_worker(modname):
    global _MOD
    os.environ.setdefault("OMP_NUM_THREADS", "1")
    try:  # a mutated tree must not be able to take the machine down
        import resource

        lim = int(os.environ.get("VERIF_WORKER_MEM_GB", "6")) * (1 << 30)
        resource.setrlimit(resource.RLIMIT_AS, (lim, lim))
    except Exception:
        pass
    from mc import extshim

    extshim.install()
    import warnings

    warnings.filterwarnings("ignore")
    _MOD = importlib.import_module(modname)
    if hasattr(_MOD, "init_worker"):
        _MOD.init_worker()


def _work(args):
    shard, tier, seed = args
    t0 = time.time()
    try:
        res = _MOD.run_shard(shard, tier, seed)
        out = res.pack()
        out["error"] = None
    except Exception:
        out = Result().pack()
        out["error"] = "shard %r: %s" % (shard, traceback.format_exc())
    out["wall"] = time.time() - t0
    out["shard"] = repr(shard)[:120]
    return out


def _jsonable(o):
    import numpy as np

    if isinstance(o, dict):
        return {str(k): _jsonable(v) for k, v in o.items()}
    if isinstance(o, (list, tuple, set, frozenset)):
        return [_jsonable(v) for v in o]
    if isinstance(o, np.ndarray):
        return _jsonable(o.tolist())
    if isinstance(o, (np.integer,)):
        return int(o)
    if isinstance(o, (np.floating,)):
        return float(o)
    if isinstance(o, (np.bool_,)):
        return bool(o)
    if isinstance(o, float):
        if o != o:
            return "nan"
        if o in (float("inf"), float("-inf")):
            return "inf" if o > 0 else "-inf"
        return o
    if isinstance(o, (str, int, bool)) or o is None:
        return o
    return repr(o)


def load_known():
    if not os.path.exists(KNOWN):
        return {"findings": [], "fixed": []}
    with open(KNOWN) as fh:
        return json.load(fh)


def match_known(known, prop, signature):
    sig = _jsonable(signature)
    for f in known.get("findings", []):
        if f.get("property") != prop:
            continue
        fs = f.get("signature", {})
        if fs and all(sig.get(k) == v for k, v in fs.items()):
            return f
    return None


def write_replay(prop, viol, tier, seed):
    d = os.path.join(REPLAY_DIR, prop)
    os.makedirs(d, exist_ok=True)
    body = {
        "property": prop,
        "signature": _jsonable(viol["signature"]),
        "case": _jsonable(viol["case"]),
        "reason": viol["reason"],
        "observed": _jsonable(viol.get("observed")),
        "expected": _jsonable(viol.get("expected")),
        "tier": tier,
        "seed": seed,
        "replay_cmd": "./check %s --replay <this file>" % prop,
    }
    name = short_hash(body["signature"]) + ".json"
    path = os.path.join(d, name)
    with open(path, "w") as fh:
        json.dump(body, fh, indent=1, sort_keys=True)
    return path


def run_check(modname, tier, seed):
    t0 = time.time()
    from mc import extshim

    extshim.build()  # compile once, before the pool starts
    extshim.install()  # the parent may import matid while listing shards; workers are forked from it
    import warnings

    warnings.filterwarnings("ignore")
    mod = importlib.import_module(modname)
    prop = mod.PROPERTY
    shards = mod.shards(tier, seed)
    order = list(range(len(shards)))
    # VERIF_SEED only rotates the visiting order (and, inside modules, the row of vetted constants)
    k = seed % max(1, len(order))
    order = order[k:] + order[:k]
    jobs = [(shards[i], tier, seed) for i in order]
    job_index = {repr(shards[i])[:120]: i for i in order}

    total = Result()
    errors = []
    shard_walls = []
    ctx = mp.get_context("fork")
    nproc = min(NPROC, max(1, len(jobs)))
    import concurrent.futures as cf

    with cf.ProcessPoolExecutor(nproc, mp_context=ctx, initializer=_init_worker, initargs=(modname,)) as pool:
        futs = {pool.submit(_work, j): k for k, j in enumerate(jobs)}
        done_jobs = set()
        pool_broken = False
        outs = []
        for fut in cf.as_completed(futs):
            try:
                out = fut.result()
            except Exception as e:  # a worker died (killed, out of memory, segfault): never hang, never guess
                pool_broken = True
                sys.stderr.write("worker failure: %r -- re-running unfinished shards in isolated processes\n" % (e,))
                for f in futs:
                    f.cancel()
                break
            done_jobs.add(futs[fut])
            outs.append(out)
    crashed = []
    if pool_broken:
        rest = [k for k in range(len(jobs)) if k not in done_jobs]
        more, crashed = _isolated(modname, tier, seed, [order[k] for k in rest], nproc)
        outs.extend(more)
    if True:
        for out in outs:
            if out["error"]:
                errors.append(out["error"])
                continue
            for v in out["violations"]:
                v["shard_index"] = job_index.get(out.get("shard", ""))
            total.counters.update(out["counters"])
            total.outcomes.update(out["outcomes"])
            total.notes.update(out["notes"])
            total.nontrivial |= out["nontrivial"]
            for s in out["samples"]:
                total.sample(s, cap=6)
            total.violations.extend(out["violations"])
            shard_walls.append((out["wall"], out.get("shard", "")))
    if errors:
        sys.stderr.write("INFRASTRUCTURE ERROR in %d shard(s):\n%s\n" % (len(errors), errors[0]))
        return 2

    for si in crashed:
        total.violations.append({"signature": {"check": "%s.crash" % prop.lower(), "shard": repr(shards[si])[:120]},
                                 "case": {"crash_shard_index": si, "shard": repr(shards[si])[:120], "tier": tier, "seed": seed, "module": modname},
                                 "reason": "the process executing shard %r died (segmentation fault / killed / out of memory) instead of returning" % (shards[si],),
                                 "observed": None, "expected": None, "shard_index": si})
    # ---- triage violations
    known = load_known()
    by_sig = collections.OrderedDict()
    for v in total.violations:
        key = short_hash(_jsonable(v["signature"]))
        by_sig.setdefault(key, v)
    known_hits = collections.OrderedDict()
    fresh = []
    for key, v in by_sig.items():
        f = match_known(known, prop, v["signature"])
        if f is not None:
            known_hits.setdefault(json.dumps(f["signature"], sort_keys=True), (f, v))
        else:
            fresh.append(v)
    for f, v in known_hits.values():
        print("KNOWN-FINDING: property=%s %s" % (prop, f["what"]))
    if os.environ.get("VERIF_LIST_VIOLATIONS"):
        # side listing for triage (never read back by any check)
        with open(os.environ["VERIF_LIST_VIOLATIONS"], "w") as fh:
            json.dump([{"signature": _jsonable(v["signature"]), "reason": v["reason"]} for v in fresh], fh, indent=1)

    exit_code = 0
    nonrepro = 0
    reported = 0
    if fresh:
        extshim.install() if "matid" not in sys.modules else None
        import warnings

        warnings.filterwarnings("ignore")
        for v in fresh[:MAX_REPLAYS]:
            want = short_hash(_jsonable(v["signature"]))
            ok = True
            if "crash_shard_index" in v["case"]:
                ok = all(_shard_in_subprocess(modname, tier, seed, v["case"]["crash_shard_index"]) is None for _ in range(2))
            else:
                for _ in range(2):
                    try:
                        again = mod.replay(v["case"])
                    except Exception:
                        again = []
                        sys.stderr.write("replay raised: %s\n" % traceback.format_exc())
                    if want not in {short_hash(_jsonable(a["signature"])) for a in again}:
                        ok = False
                if not ok and v.get("shard_index") is not None:
                    # not reproducible from the single case: the failure may depend on state left behind by earlier
                    # cases of the same shard.  Re-execute the whole shard as a history, twice, in fresh processes.
                    ok = True
                    for _ in range(2):
                        o = _shard_in_subprocess(modname, tier, seed, v["shard_index"])
                        if o is None or want not in {short_hash(_jsonable(a["signature"])) for a in o["violations"]}:
                            ok = False
                    if ok:
                        v = dict(v, case={"history_shard_index": v["shard_index"], "shard": repr(shards[v["shard_index"]])[:120], "tier": tier, "seed": seed,
                                          "module": modname, "signature": _jsonable(v["signature"]), "last_case": _jsonable(v["case"])},
                                 reason=v["reason"] + "  [history-dependent: reproduces only when the whole shard is executed in order in one process]")
            if not ok:
                nonrepro += 1
                sys.stderr.write("NON-REPRODUCIBLE failure (infrastructure): %s\n" % json.dumps(_jsonable(v["signature"])))
                continue
            path = write_replay(prop, v, tier, seed)
            print("VIOLATION property=%s replay=%s" % (prop, path))
            print("  reason: %s" % v["reason"])
            reported += 1
            exit_code = 1
        if len(fresh) > MAX_REPLAYS:
            print("  (+%d further distinct violations not written as replay files)" % (len(fresh) - MAX_REPLAYS))
        if nonrepro and exit_code == 0:
            exit_code = 2

    # ---- evidence
    desc = mod.describe(tier, seed)
    c = total.counters
    cov = {
        "states": int(c.get("states", 0)),
        "transitions": int(c.get("transitions", 0)),
        "traces_validated_against_impl": int(c.get("traces", c.get("evaluations", 0))),
        "evaluations": int(c.get("evaluations", 0)),
        "distinct_nontrivial": len(total.nontrivial) + int(c.get("nontrivial_distinct", 0)),
        "rule": desc.get("rule", ""),
        "nontrivial_rule": desc.get("nontrivial_rule", ""),
        "samples": _jsonable(total.samples),
        "exhaustive": bool(desc.get("exhaustive", True)) and not c.get("caps_hit", 0),
        "bounds": _jsonable(desc.get("bounds", {})),
        "shards": len(shards),
        "workers": nproc,
        "distinct_outcomes": len(total.outcomes),
        "outcome_histogram": _jsonable(dict(total.outcomes.most_common(40))),
        "counters": _jsonable({k: v for k, v in c.items()}),
        "notes": _jsonable(dict(total.notes)),
        "known_findings_hit": [f["what"] for f, _ in known_hits.values()],
        "violations_distinct": len(fresh),
        "violations_reported": reported,
        "non_reproducible": nonrepro,
        "config": "src (matid/ext compiled from the working tree)" + (" + bin differential" if desc.get("bin_differential") else ""),
        "slowest_shard_s": round(max(shard_walls)[0], 2) if shard_walls else 0,
        "slowest_shards": [[round(w, 1), sh] for w, sh in sorted(shard_walls, reverse=True)[:5]],
    }
    ev = {
        "property_id": prop,
        "tier": tier,
        "seed": seed,
        "level": "model_checking",
        "coverage": cov,
        "assumptions": desc.get("assumptions", []),
        "wall_s": round(time.time() - t0, 2),
        "violations": len(fresh),
    }
    os.makedirs(EVIDENCE_DIR, exist_ok=True)
    path = os.path.join(EVIDENCE_DIR, prop + ".json")
    with open(path, "w") as fh:
        json.dump(ev, fh, indent=1, sort_keys=True)
    if not validate_evidence(path):
        return 2
    print(
        "%s %s seed=%d: states=%d transitions=%d evaluations=%d nontrivial=%d outcomes=%d violations=%d known=%d wall=%.1fs"
        % (prop, tier, seed, cov["states"], cov["transitions"], cov["evaluations"], cov["distinct_nontrivial"],
           cov["distinct_outcomes"], len(fresh), len(known_hits), ev["wall_s"])
    )
    return exit_code


def _shard_in_subprocess(modname, tier, seed, idx, timeout=3600):
    import pickle
    import tempfile

    fd, out = tempfile.mkstemp(suffix=".pickle", dir=os.path.join(VERIF, "build") if os.path.isdir(os.path.join(VERIF, "build")) else None)
    os.close(fd)
    try:
        r = subprocess.run([sys.executable, "-m", "mc.worker", modname, tier, str(seed), str(idx), out], capture_output=True, text=True, timeout=timeout, cwd=VERIF)
        if r.returncode != 0 or os.path.getsize(out) == 0:
            return None
        with open(out, "rb") as fh:
            return pickle.load(fh)
    except subprocess.TimeoutExpired:
        return None
    finally:
        try:
            os.unlink(out)
        except OSError:
            pass


def _isolated(modname, tier, seed, indices, nproc):
    """Run the given shards one per fresh process; returns (results, indices that crashed)."""
    from concurrent.futures import ThreadPoolExecutor

    outs, crashed = [], []
    with ThreadPoolExecutor(max(1, nproc)) as tp:
        for idx, o in zip(indices, tp.map(lambda i: _shard_in_subprocess(modname, tier, seed, i), indices)):
            if o is None:
                crashed.append(idx)
            else:
                outs.append(o)
    return outs, crashed


def validate_evidence(path):
    schema = "/root/.vp/EVIDENCE.schema.json"
    if not os.path.exists(schema):
        schema = os.path.join(VERIF, "schemas", "EVIDENCE.schema.json")
    code = (
        "import json,sys,jsonschema;"
        "jsonschema.validate(json.load(open(sys.argv[1])),json.load(open(sys.argv[2])))"
    )
    for py in ("python3-vt", "/opt/veriftools/pyvenv/bin/python"):
        try:
            r = subprocess.run([py, "-c", code, path, schema], capture_output=True, text=True)
        except FileNotFoundError:
            continue
        if r.returncode != 0:
            sys.stderr.write("evidence does not validate: %s\n" % r.stderr[-2000:])
            return False
        return True
    sys.stderr.write("warning: no jsonschema interpreter found; evidence not validated\n")
    return True


def run_replay(modname, path):
    from mc import extshim

    extshim.install()
    import warnings

    warnings.filterwarnings("ignore")
    mod = importlib.import_module(modname)
    with open(path) as fh:
        body = json.load(fh)
    case = body["case"]
    if "crash_shard_index" in case:
        o = _shard_in_subprocess(modname, case["tier"], case["seed"], case["crash_shard_index"])
        viols = [] if o is not None else [{"reason": body["reason"]}]
    elif "history_shard_index" in case:
        o = _shard_in_subprocess(modname, case["tier"], case["seed"], case["history_shard_index"])
        want = short_hash(case["signature"])
        viols = [a for a in (o["violations"] if o else []) if short_hash(_jsonable(a["signature"])) == want]
    else:
        viols = mod.replay(case)
    print("replaying %s" % path)
    print("recorded: %s" % body["reason"])
    if not viols:
        print("-> no violation on the current tree")
        return 0
    for v in viols:
        print("-> VIOLATION property=%s replay=%s" % (mod.PROPERTY, path))
        print("   %s" % v["reason"])
        print("   observed=%s expected=%s" % (_jsonable(v.get("observed")), _jsonable(v.get("expected"))))
    return 1
