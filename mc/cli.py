import argparse
import os
import sys


def main():
    ap = argparse.ArgumentParser()
    ap.add_argument("prop")
    ap.add_argument("--tier", default=os.environ.get("VERIF_TIER", "quick"), choices=["quick", "thorough"])
    ap.add_argument("--replay")
    a = ap.parse_args()
    seed = int(os.environ.get("VERIF_SEED", "0") or 0)
    modname = "mc.props." + a.prop.lower()
    from mc import engine

    if a.replay:
        sys.exit(engine.run_replay(modname, a.replay))
    sys.exit(engine.run_check(modname, a.tier, seed))


if __name__ == "__main__":
    main()
