#!/usr/bin/env python3
"""Regenerates MANIFEST.json from the table below (kept in one place so that it stays valid)."""
import json, os
HERE = os.path.dirname(os.path.abspath(__file__))
props = {}
for l in open(os.path.join(HERE, "properties.jsonl")):
    d = json.loads(l); props[d["id"]] = d

CLAIMED = {
    # id: (technique, level text, level note, design ref)
    "C10": ("exhaustive enumeration of a finite input alphabet on the real C++ core vs brute-force lattice-sum oracle",
            "every (cell, rotation, pbc mask, cutoff, 1-4 atoms on fractional grids, exact/offset) input in the stated alphabet is executed on the implementation and every table entry is compared with a brute-force MIC reference; a coverage statement over that alphabet, nothing about values outside it",
            "trusts numpy, the lattice-sum oracle (box derived from reduced-basis heights), and that geometry.cpp/celllist.cpp compiled against the py::array_t stand-in behave like the pybind11 build (checked bit-for-bit against the installed binary on a 1/16 slice of every run)",
            "DESIGN.md §4 C10"),
    "C19": ("complete enumeration of the finite table (103 elements x 3 presets) + exhaustive differential over a lattice-gas family",
            "the preset table is enumerated completely against an independently built table; every configuration of a 2x2x2 two-species lattice gas up to the stated atom count is run through all three consumers with preset vs array",
            "trusts ase.data as the documented table; differential family is bounded (<=3 atoms quick, <=5 thorough, 3 pbc masks, 2 spacings)",
            "DESIGN.md §4 C19"),
    "C20": ("exhaustive enumeration of a finite input alphabet against element-wise numeric identities",
            "every (cell, pbc mask, 1-3 atoms on a half-step grid over [-1,2)^3, exact/offset) input is pushed through every helper with all axes / min sizes / index pairs and each clause of the statement is evaluated as an identity",
            "bounded alphabet (<=3 atoms, listed cells); centre-of-mass clauses skipped where the circular mean is undefined; weight=False may use either periodic centre",
            "DESIGN.md §4 C20"),
    "C09": ("exhaustive root enumeration + presentation BFS (depth 1) on the real get_dimensionality vs a periodic bonding-graph reference model",
            "every root of the stated grid families is compared with a union-find/cycle-rank reference and re-presented by every generator (supercell, shear, rigid motion, permutation, lattice-vector shifts); the implementation must return the reference value in every reached state",
            "bounded alphabet (<=4 atoms per root, listed cells, 2 radii levels + 3 presets, 3 thresholds); roots within 1e-6 of a bond threshold and roots with GF(2) rank != integer rank are skipped and counted",
            "DESIGN.md §4 C09"),
    "C14": ("complete enumeration of the three finite tables against spglib's Hall-symbol database",
            "all 230 info rows, all 1731 Wyckoff positions (expressions, matrices, constants, variables, orbit closure, spglib letter of a probe crystal) and all tabulated normalizers (closure, metric, handedness, permutation) are enumerated; nothing is sampled",
            "International Tables are represented by spglib's Hall database (first Hall number per group) and spglib's letter assignment; point identification by smallest containing tabulated position",
            "DESIGN.md §4 C14"),
    "C16": ("exhaustive enumeration of a finite input alphabet on the real C++ core vs brute-force image enumeration",
            "every (cell incl. degenerate, pbc mask, 1-3 atoms, extension x cutoff in both orders) builds the real extended system / cell list, which is compared row by row and query by query (grid of query points) with a brute-force image set; get_matches/get_matches_simple compared on the same points",
            "atoms inside the cell; images beyond the extension are optional; matching judged only where the nearest image is one the cell list must contain; ext.cpp bindings not compiled (py::array_t stand-in)",
            "DESIGN.md §4 C16"),
}
NA_REASON = "check not built yet in this round; see DESIGN.md §7 order of work"

checks = []
for pid in sorted(props):
    if pid in CLAIMED:
        tech, text, note, ref = CLAIMED[pid]
        checks.append({
            "property_id": pid,
            "quick_cmd": "./check %s --tier quick" % pid,
            "thorough_cmd": "./check %s --tier thorough" % pid,
            "evidence_file": "/verif/evidence/%s.json" % pid,
            "replay_cmd_template": "./check %s --replay {path}" % pid,
            "engine": "mc",
            "level_claimed": {"category": "model_checking", "text": text, "design_ref": ref},
            "level_note": note,
            "technique": tech,
        })
man = {
    "version": 1,
    "setup_cmd": "./setup.sh",
    "hooks": {
        "guard": "MATID_VERIF",
        "enable": "no source hooks are needed: the checks import matid from /repo's working tree (development install) and compile matid/ext/*.cpp from it on every run",
        "baseline_off_cmd": "cd /repo && /venv/bin/python -m pytest -ra -q -p no:cacheprovider --timeout=900 --continue-on-collection-errors",
        "source_commits": [],
        "add_only": True,
    },
    "engines": [{"name": "mc", "path": "/verif/mc", "serves_properties": sorted(CLAIMED),
                 "kind_free_text": "hand-written explicit enumeration / BFS explorer over the real implementation with brute-force reference models"}],
    "checks": checks,
    "not_applicable": [{"property_id": p, "reason": NA_REASON} for p in sorted(props) if p not in CLAIMED],
    "notes": "All checks: ./check <id> --tier quick|thorough; VERIF_SEED selects one of 4 vetted rows of generic constants and rotates shard order; evidence in /verif/evidence/<id>.json; known findings in /verif/known_findings.json.",
}
json.dump(man, open(os.path.join(HERE, "MANIFEST.json"), "w"), indent=1)
print("claimed", sorted(CLAIMED))
