#!/usr/bin/env python3
"""Regenerates MANIFEST.json from the table below (kept in one place so that it stays valid)."""
import json, os
HERE = os.path.dirname(os.path.abspath(__file__))
props = {}
for l in open(os.path.join(HERE, "properties.jsonl")):
    d = json.loads(l); props[d["id"]] = d

CLAIMED = {
    # id: (technique, level text, level note, design ref)
    "C10": ("exhaustive enumeration of a finite input alphabet on the real C++ core vs brute-force lattice-sum oracle",
            "every (cell, rotation, pbc mask, cutoff, 1-4 atoms on fractional grids, exact/offset) input in the stated alphabet is executed on the implementation and every table entry is compared with a brute-force MIC reference; a coverage statement over that alphabet, nothing about values outside it",
            "trusts numpy, the lattice-sum oracle (box derived from reduced-basis heights), and that geometry.cpp/celllist.cpp compiled against the py::array_t stand-in behave like the pybind11 build (checked bit-for-bit against the installed binary on a 1/16 slice of every run)",
            "DESIGN.md §4 C10"),
    "C19": ("complete enumeration of the finite table (103 elements x 3 presets) + exhaustive differential over a lattice-gas family",
            "the preset table is enumerated completely against an independently built table; every configuration of a 2x2x2 two-species lattice gas up to the stated atom count is run through all three consumers with preset vs array",
            "trusts ase.data as the documented table; differential family is bounded (<=3 atoms quick, <=5 thorough, 3 pbc masks, 2 spacings)",
            "DESIGN.md §4 C19"),
    "C20": ("exhaustive enumeration of a finite input alphabet against element-wise numeric identities",
            "every (cell, pbc mask, 1-3 atoms on a half-step grid over [-1,2)^3, exact/offset) input is pushed through every helper with all axes / min sizes / index pairs and each clause of the statement is evaluated as an identity",
            "bounded alphabet (<=3 atoms, listed cells); centre-of-mass clauses skipped where the circular mean is undefined; weight=False may use either periodic centre",
            "DESIGN.md §4 C20"),
    "C09": ("exhaustive root enumeration + presentation BFS (depth 1) on the real get_dimensionality vs a periodic bonding-graph reference model",
            "every root of the stated grid families is compared with a union-find/cycle-rank reference and re-presented by every generator (supercell, shear, rigid motion, permutation, lattice-vector shifts); the implementation must return the reference value in every reached state",
            "bounded alphabet (<=4 atoms per root, listed cells, 2 radii levels + 3 presets, 3 thresholds); roots within 1e-6 of a bond threshold and roots with GF(2) rank != integer rank are skipped and counted",
            "DESIGN.md §4 C09"),
    "C14": ("complete enumeration of the three finite tables against spglib's Hall-symbol database",
            "all 230 info rows, all 1731 Wyckoff positions (expressions, matrices, constants, variables, orbit closure, spglib letter of a probe crystal) and all tabulated normalizers (closure, metric, handedness, permutation) are enumerated; nothing is sampled",
            "International Tables are represented by spglib's Hall database (first Hall number per group) and spglib's letter assignment; point identification by smallest containing tabulated position",
            "DESIGN.md §4 C14"),
    "C16": ("exhaustive enumeration of a finite input alphabet on the real C++ core vs brute-force image enumeration",
            "every (cell incl. degenerate, pbc mask, 1-3 atoms, extension x cutoff in both orders) builds the real extended system / cell list, which is compared row by row and query by query (grid of query points) with a brute-force image set; get_matches/get_matches_simple compared on the same points",
            "atoms inside the cell; images beyond the extension are optional; matching judged only where the nearest image is one the cell list must contain; ext.cpp bindings not compiled (py::array_t stand-in)",
            "DESIGN.md §4 C16"),
    "C05": ("exhaustive root enumeration over (space group, Wyckoff letters) + presentation BFS (depth 1) on the real SymmetryAnalyzer vs independent spglib / lattice-automorphism congruence search",
            "one crystal per listed (group, occupied letters, anchor) is analysed in every presentation; the returned conventional cell is re-analysed independently, compared with the standardized lattice, and matched to the standardized input atoms by an exhaustive search over the <=48 metric-preserving integer matrices x all same-species translations, distinguishing proper from improper maps",
            "bounded family (<=2 occupied positions, atom cap, two species + anchor species, tol 0.01, listed generators); trusts spglib as the independent symmetry search",
            "DESIGN.md §4 C05"),
    "C06": ("presentation BFS (depth 1) with differential oracle root-vs-state on the real SymmetryAnalyzer",
            "the normal-form tuple of every reached presentation is compared with the root's; parameter-free roots in metrically fixed systems additionally compare the conventional cell and position set",
            "same bounded family as C05; rotations/translations/permutations/basis changes/supercells from the listed generator set only",
            "DESIGN.md §4 C06"),
    "C07": ("exhaustive root enumeration + presentation BFS; every Wyckoff set compared with the orbit under independently obtained operations",
            "in every reached state the sets must partition the conventional cell, agree with per-atom letters/classes, equal the orbit of their first atom under spglib's operations of the returned cell and under the Hall-database operations, and sit on the tabulated position of their letter",
            "same bounded family as C05; letter check by position relies on the Wyckoff tables verified by C14",
            "DESIGN.md §4 C07"),
    "C08": ("complete enumeration of all (space group, Wyckoff letter) pairs x presentations on the real parameter solver",
            "every one of the 1731 positions is occupied at a generic parameter row (anchored), analysed in every presentation, and the reported parameters are substituted back into the representative expression (parsed independently)",
            "generic parameter rows from a vetted table; crystals above the atom cap are listed as skipped",
            "DESIGN.md §4 C08"),
    "C12": ("exhaustive root enumeration + presentation BFS; consistency identities between the three descriptions",
            "in every reached state the original/primitive/conventional letters and classes are compared by exact counting identities; the primitive system is re-analysed independently (find_primitive, space group, volume per atom, centring ratio)",
            "same bounded family as C05; all seven centring types occur among the 230 groups",
            "DESIGN.md §4 C12"),
    "C15": ("exhaustive root enumeration over all 230 groups + presentation BFS on the real get_is_chiral",
            "for every (group, letter) crystal with and without anchor the flag must equal 'all Hall-database operations proper' in every presentation (supercells, shears, rotations, permutations)",
            "same bounded family as C05",
            "DESIGN.md §4 C15"),
    "C01": ("explicit-state enumeration of the real merge/localize/clean pipeline on a synthetic alphabet + deviation-bounded exploration of the SBC seed-choice tree over complete structure families",
            "seam: every synthetic input within the stated bounds is executed on the real post-processing functions and the set invariants are evaluated on every output; end to end: every structure of the listed families is clustered under every seed-choice script within the deviation bound (scripted chooser replacing the RNG) and every invariant of the statement is evaluated on every result, including input immutability and run-to-run determinism",
            "bounded families (<=54 atoms, single deviations quick / pairs thorough), parameter deviations one at a time; connectivity judged with brute-force MIC on the input; numpy.random.default_rng intercepted inside matid.clustering.sbc",
            "DESIGN.md §4 C01"),
    "C13": ("deviation-bounded exploration of SBC outputs x call histories on the Cluster object, differential against the public function",
            "for every cluster of every explored SBC run (the C01 families, incl. those where cleaning removes atoms) and every listed call history, the shortcut's value is compared with get_dimensionality on the cluster's atoms with the radii/threshold used",
            "same bounded families as C01; differential oracle (correctness of the reference function itself is C09)",
            "DESIGN.md §4 C13"),
    "C17": ("exhaustive enumeration of structure families x parameter deviations + exhaustive call-sequence exploration on one Classifier",
            "every structure of the listed families is classified on a fresh Classifier and each clause (class vs dimensionality, region partition/coverage, prototype cell, input snapshot, repeated call) is evaluated; every sequence A,B,(C,)A over 6 representative systems on one instance is compared with fresh instances",
            "dimensionality reference is the library's own get_dimensionality (checked by C09) plus the bonding-graph model for <=6 atoms; bounded families",
            "DESIGN.md §4 C17"),
    "C03": ("complete enumeration of a stack catalogue x orderings x noise x scripted seed choices on the real SBC",
            "every ordered pair of catalogue fcc/bcc metals within 5 % mismatch that passes the independent precondition is stacked (layer counts, lateral size, TTF / TTT+vacuum / superlattice) and clustered under every listed ordering, noise field and seed-choice script; the two clusters must be exactly the two slabs with dimensionality 2",
            "the statement is a recognition claim about a heuristic: the coverage is exactly the enumerated catalogue (covalent radii, margins 0.1 A, one 0.03 A noise field per VERIF_SEED row)",
            "DESIGN.md §4 C03"),
    "C04": ("complete enumeration of the C02 catalogue + monolayers x presentations x scripted seed choices; analyser comparison source cell vs prototype cell",
            "for every explored run in which SBC returns the single complete cluster, the prototype cell is pushed through the documented SymmetryAnalyzer workflow and compared field by field with the source unit cell analysed at the same tolerance",
            "runs not returning one complete cluster are filtered (that is C02); recognition claim, coverage = the enumerated catalogue",
            "DESIGN.md §4 C04"),
    "C11": ("exhaustive root enumeration over layer-compatible symmorphic groups + presentation BFS on the real SymmetryAnalyzer (2D branch)",
            "every root layer is analysed under three min_2d_thickness values and under every generator (vacuum, all axis relabellings, in-plane supercells, rotation, flip, translation, permutation); structural clauses are evaluated in every state and the normal-form fields are compared with the root",
            "bounded family (1-3 orbits, listed generators, tol 0.01); the set of layer-compatible groups is derived by the harness from the Hall database",
            "DESIGN.md §4 C11"),
    "C02": ("complete enumeration of a material catalogue x presentations x scripted seed choices on the real SBC",
            "every catalogue material passing the independent precondition is built as bulk and as every listed slab and clustered under every listed presentation (noise fields, rigid motions, permutation) and seed-choice script; the result must be the single complete cluster with dimensionality 3/2",
            "recognition claim about a heuristic: the coverage is exactly the enumerated catalogue (quick: 15 materials, thorough: all 62); noise = deterministic fields of exactly the stated amplitude; known findings listed in known_findings.json",
            "DESIGN.md §4 C02"),
}
NA_REASON = "check not built yet in this round; see DESIGN.md §7 order of work"

checks = []
for pid in sorted(props):
    if pid in CLAIMED:
        tech, text, note, ref = CLAIMED[pid]
        checks.append({
            "property_id": pid,
            "quick_cmd": "./check %s --tier quick" % pid,
            "thorough_cmd": "./check %s --tier thorough" % pid,
            "evidence_file": "/verif/evidence/%s.json" % pid,
            "replay_cmd_template": "./check %s --replay {path}" % pid,
            "engine": "mc",
            "level_claimed": {"category": "model_checking", "text": text, "design_ref": ref},
            "level_note": note,
            "technique": tech,
        })
man = {
    "version": 1,
    "setup_cmd": "./setup.sh",
    "hooks": {
        "guard": "MATID_VERIF",
        "enable": "no source hooks are needed: the checks import matid from /repo's working tree (development install) and compile matid/ext/*.cpp from it on every run",
        "baseline_off_cmd": "cd /repo && /venv/bin/python -m pytest -ra -q -p no:cacheprovider --timeout=900 --continue-on-collection-errors",
        "source_commits": [],
        "add_only": True,
    },
    "engines": [{"name": "mc", "path": "/verif/mc", "serves_properties": sorted(CLAIMED),
                 "kind_free_text": "hand-written explicit enumeration / BFS explorer over the real implementation with brute-force reference models"}],
    "checks": checks,
    "not_applicable": [{"property_id": p, "reason": NA_REASON} for p in sorted(props) if p not in CLAIMED],
    "notes": "All checks: ./check <id> --tier quick|thorough; VERIF_SEED selects one of 4 vetted rows of generic constants and rotates shard order; evidence in /verif/evidence/<id>.json; known findings in /verif/known_findings.json.",
}
json.dump(man, open(os.path.join(HERE, "MANIFEST.json"), "w"), indent=1)
print("claimed", sorted(CLAIMED))
